package main

// Path-sensitive value flow for "where does this argument come from, and under which outcome of that call":
// a depth-first exploration of the (inlined) flow graph from one error-returning call. A state is the node, the
// world of the call's error (nil, any = some other error, is:<sentinel>, as:<type>) and a small map from
// variables to symbolic values. Conditions on the error (or on copies of it) prune edges per world exactly as
// the error-state dataflow does; everything else keeps both edges. The rule supplies the symbolic evaluation
// of right-hand sides through a hook and inspects the states that reach its target nodes.

import (
	"go/ast"
	"go/token"
	"go/types"
	"sort"
	"strings"
)

const (
	vfErr   = "$ERR"   // a copy of the tracked error
	vfNil   = "$NIL"   // the constant nil
	vfTrue  = "$TRUE"  // a flag that recorded a test of the tracked error: the test held
	vfFalse = "$FALSE" // ... did not hold
)

type vfState struct {
	Node  int
	World string
	Vals  map[types.Object]string
}

func (s vfState) key() string {
	var ks []string
	for o, v := range s.Vals {
		ks = append(ks, o.Name()+"@"+itoa(int(o.Pos())%97)+"="+v)
	}
	sort.Strings(ks)
	return itoa(s.Node) + "|" + s.World + "|" + strings.Join(ks, ",")
}

type valueFlow struct {
	f    *Flat
	info *types.Info
	// Eval gives the symbolic value of an expression ("" = unknown); it may consult the state.
	Eval func(s vfState, e ast.Expr) string
	// FieldStore is called for "x.F = rhs": it returns the new symbolic value of x ("" = unknown)
	FieldStore func(s vfState, x types.Object, field string, rhs string) string
	// Visit is called for every (node, state) reached, before the node's effect is applied.
	Visit func(s vfState)
}

// evalErrCond evaluates a condition for an error variable whose value is nil / in world w.
func evalErrCond(info *types.Info, e ast.Expr, E types.Object, w string) (mayTrue, mayFalse bool) {
	if w != "nil" {
		return eval3(info, e, E, w)
	}
	e = ast.Unparen(e)
	switch x := e.(type) {
	case *ast.UnaryExpr:
		if x.Op == token.NOT {
			t, f := evalErrCond(info, x.X, E, w)
			return f, t
		}
	case *ast.BinaryExpr:
		switch x.Op {
		case token.LAND:
			at, af := evalErrCond(info, x.X, E, w)
			bt, bf := evalErrCond(info, x.Y, E, w)
			return at && bt, af || (at && bf)
		case token.LOR:
			at, af := evalErrCond(info, x.X, E, w)
			bt, bf := evalErrCond(info, x.Y, E, w)
			return at || (af && bt), af && bf
		}
	}
	ci := classifyCond(info, e)
	if ci.kind == "" || ci.obj != E {
		return true, true
	}
	var t, f bool
	switch ci.kind {
	case "nonnil":
		t, f = false, true
	case "isnil":
		t, f = true, false
	case "is", "as":
		t, f = false, true
	case "isnot":
		t, f = true, false
	}
	if ci.neg {
		t, f = f, t
	}
	return t, f
}

// Run explores from the successors of the call site: errVar receives the tracked error, initial seeds the map.
func (vf *valueFlow) Run(site int, errVar types.Object, initial map[types.Object]string) {
	f, info := vf.f, vf.info
	seen := map[string]bool{}
	var work []vfState
	push := func(s vfState) {
		k := s.key()
		if !seen[k] && len(seen) < 20000 {
			seen[k] = true
			work = append(work, s)
		}
	}
	clone := func(m map[types.Object]string) map[types.Object]string {
		c := make(map[types.Object]string, len(m)+2)
		for k, v := range m {
			c[k] = v
		}
		return c
	}
	for _, w := range []string{"nil", "any"} {
		vals := clone(initial)
		if errVar != nil {
			vals[errVar] = vfErr
		}
		for _, e := range f.Nodes[site].Succs {
			push(vfState{Node: e.To, World: w, Vals: vals})
		}
	}
	for len(work) > 0 {
		s := work[len(work)-1]
		work = work[:len(work)-1]
		n := f.Nodes[s.Node]
		if vf.Visit != nil {
			vf.Visit(s)
		}
		if n.IsCond {
			cond := n.Ast.(ast.Expr)
			// which tracked error variable does the condition test?
			var tested types.Object
			for o, v := range s.Vals {
				if (v == vfErr || v == vfNil) && condMentions(info, cond, o) {
					tested = o
				}
			}
			// a flag that recorded an earlier test of the error (idle := errors.Is(err, X))
			flagged := false
			ast.Inspect(cond, func(x ast.Node) bool {
				if id, ok := x.(*ast.Ident); ok {
					if v := s.Vals[objOf(info, id)]; v == vfTrue || v == vfFalse {
						flagged = true
					}
				}
				return true
			})
			if tested == nil && flagged {
				mt, mf := vf.cond3(cond, nil, s.World, s.Vals)
				for _, e := range n.Succs {
					if (e.Label == 1 && mt) || (e.Label == 2 && mf) {
						push(vfState{Node: e.To, World: s.World, Vals: s.Vals})
					}
				}
				continue
			}
			if tested != nil {
				worlds := []string{"nil"}
				if s.Vals[tested] == vfErr {
					if s.World == "nil" {
						worlds = []string{"nil"}
					} else {
						worlds = worldsFor(info, cond, tested, s.World)
					}
				}
				for _, w := range worlds {
					mt, mf := evalErrCond(info, cond, tested, w)
					if flagged {
						mt, mf = vf.cond3(cond, tested, w, s.Vals)
					}
					nw := s.World
					if s.Vals[tested] == vfErr {
						nw = w
					}
					for _, e := range n.Succs {
						if (e.Label == 1 && mt) || (e.Label == 2 && mf) {
							push(vfState{Node: e.To, World: nw, Vals: s.Vals})
						}
					}
				}
				continue
			}
			for _, e := range n.Succs {
				push(vfState{Node: e.To, World: s.World, Vals: s.Vals})
			}
			continue
		}
		vals := s.Vals
		world := s.World
		if n.Ast != nil {
			vals = clone(s.Vals)
			switch st := n.Ast.(type) {
			case *ast.AssignStmt:
				// flag := <test of the tracked error>: the worlds split here, the flag records the outcome
				if len(st.Lhs) == 1 && len(st.Rhs) == 1 {
					if fo := objOf(info, st.Lhs[0]); fo != nil {
						if bt, ok := fo.Type().Underlying().(*types.Basic); ok && bt.Info()&types.IsBoolean != 0 {
							var tested types.Object
							for o, v := range s.Vals {
								if (v == vfErr || v == vfNil) && condMentions(info, st.Rhs[0], o) {
									tested = o
								}
							}
							if tested != nil {
								worlds := []string{"nil"}
								if s.Vals[tested] == vfErr && s.World != "nil" {
									worlds = worldsFor(info, st.Rhs[0], tested, s.World)
								}
								for _, w := range worlds {
									mt, mf := evalErrCond(info, st.Rhs[0], tested, w)
									nw := s.World
									if s.Vals[tested] == vfErr {
										nw = w
									}
									for _, b := range []struct {
										may bool
										val string
									}{{mt, vfTrue}, {mf, vfFalse}} {
										if !b.may {
											continue
										}
										nv := clone(s.Vals)
										nv[fo] = b.val
										for _, e := range n.Succs {
											push(vfState{Node: e.To, World: nw, Vals: nv})
										}
									}
								}
								continue
							}
						}
					}
				}
				if len(st.Lhs) == len(st.Rhs) {
					rv := make([]string, len(st.Rhs))
					for i, rhs := range st.Rhs {
						switch {
						case isNilIdent(info, rhs):
							rv[i] = vfNil
						case objOf(info, rhs) != nil && s.Vals[objOf(info, rhs)] != "":
							rv[i] = s.Vals[objOf(info, rhs)]
						default:
							rv[i] = vf.Eval(s, rhs)
							if rv[i] == "" {
								// the tracked error wrapped into a new one (fmt.Errorf("step: %w", err), stepErr(step, err)):
								// the new value is an error exactly where the old one is
								if c, ok := ast.Unparen(rhs).(*ast.CallExpr); ok {
									if tv, ok := info.Types[c]; ok && isErrorType(tv.Type) {
										for _, a := range c.Args {
											ast.Inspect(a, func(x ast.Node) bool {
												if id, ok := x.(*ast.Ident); ok && s.Vals[objOf(info, id)] == vfErr {
													rv[i] = vfErr
												}
												return true
											})
										}
									}
								}
							}
						}
					}
					for i, lhs := range st.Lhs {
						switch l := ast.Unparen(lhs).(type) {
						case *ast.Ident:
							if o := objOf(info, l); o != nil {
								if rv[i] == "" {
									delete(vals, o)
								} else {
									vals[o] = rv[i]
								}
							}
						case *ast.SelectorExpr:
							if o := objOf(info, l.X); o != nil && vf.FieldStore != nil {
								if nv := vf.FieldStore(s, o, l.Sel.Name, rv[i]); nv != "" {
									vals[o] = nv
								} else {
									delete(vals, o)
								}
							}
						}
					}
				} else {
					for _, o := range assignedObjs(info, st) {
						delete(vals, o)
					}
				}
			default:
				for _, o := range assignedObjs(info, n.Ast) {
					delete(vals, o)
				}
			}
		}
		for _, e := range n.Succs {
			push(vfState{Node: e.To, World: world, Vals: vals})
		}
	}
}

// cond3 evaluates a condition built from tests of the tracked error (in world w) and from flags that recorded
// such tests: may it be true, may it be false.
func (vf *valueFlow) cond3(e ast.Expr, tested types.Object, w string, vals map[types.Object]string) (mayTrue, mayFalse bool) {
	info := vf.info
	e = ast.Unparen(e)
	switch x := e.(type) {
	case *ast.Ident:
		switch vals[objOf(info, x)] {
		case vfTrue:
			return true, false
		case vfFalse:
			return false, true
		}
	case *ast.UnaryExpr:
		if x.Op == token.NOT {
			t, f := vf.cond3(x.X, tested, w, vals)
			return f, t
		}
	case *ast.BinaryExpr:
		switch x.Op {
		case token.LAND:
			at, af := vf.cond3(x.X, tested, w, vals)
			bt, bf := vf.cond3(x.Y, tested, w, vals)
			return at && bt, af || (at && bf)
		case token.LOR:
			at, af := vf.cond3(x.X, tested, w, vals)
			bt, bf := vf.cond3(x.Y, tested, w, vals)
			return at || (af && bt), af && bf
		}
	}
	if tested != nil && condMentions(info, e, tested) {
		return evalErrCond(info, e, tested, w)
	}
	return true, true
}
