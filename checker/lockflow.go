package main

// E1: lock-region dataflow on the flat CFG. State = set of configurations
// (held locks by access path and mode, stack of registered defers). Wrapper methods
// (core.Transaction.Lock ...) are recognised structurally; deferred calls and deferred
// closures are replayed LIFO at every exit with the defers registered on that path;
// function literals passed to synchronous callees are analysed inline with the locks
// held at the call ("held on entry"); `go` literals start with no locks.

import (
	"fmt"
	"go/ast"
	"go/token"
	"go/types"
	"sort"
	"strings"

	"golang.org/x/tools/go/packages"
	"golang.org/x/tools/go/types/typeutil"
)

type LockOp struct {
	Path    string // access path of the mutex, e.g. tx.m, u.allStore.m, p.listM
	Class   string // owning type + field, e.g. internal/model/core.Transaction.m
	Mode    string // "W" or "R"
	Acquire bool
	Try     bool
}

type Held struct {
	Path  string
	Class string
	Mode  string
}

func (h Held) String() string { return h.Mode + "(" + h.Path + ")" }

type lstate struct {
	held   []Held
	defers []ast.Node // *ast.DeferStmt in registration order
	// unlockers: local variables holding the release function returned by a lock helper
	// (unlock := u.lockBoth(tx); ... unlock()), with the locks it releases
	unlockers []unlocker
	// nils: what is known about the nil-ness of a local that a lock helper returned (tx := u.detachTx(id): the
	// lock is held exactly when tx is not nil)
	nils map[types.Object]bool
}

type unlocker struct {
	obj  types.Object
	held []Held
}

func (s lstate) key() string {
	var sb strings.Builder
	for _, h := range s.held {
		sb.WriteString(h.Mode + h.Path + ";")
	}
	sb.WriteString("|")
	for _, d := range s.defers {
		fmt.Fprintf(&sb, "%d,", d.Pos())
	}
	for _, u := range s.unlockers {
		fmt.Fprintf(&sb, "|u%d", u.obj.Pos())
	}
	if len(s.nils) > 0 {
		var ks []string
		for o, v := range s.nils {
			ks = append(ks, fmt.Sprintf("n%d=%v", o.Pos(), v))
		}
		sort.Strings(ks)
		sb.WriteString("|" + strings.Join(ks, ","))
	}
	return sb.String()
}

func (s lstate) clone() lstate {
	ns := lstate{held: append([]Held{}, s.held...), defers: append([]ast.Node{}, s.defers...), unlockers: append([]unlocker{}, s.unlockers...)}
	if len(s.nils) > 0 {
		ns.nils = map[types.Object]bool{}
		for k, v := range s.nils {
			ns.nils[k] = v
		}
	}
	return ns
}

func (s lstate) holds(path string) (Held, bool) {
	for _, h := range s.held {
		if h.Path == path {
			return h, true
		}
	}
	return Held{}, false
}

func heldString(hs []Held) string {
	var parts []string
	for _, h := range hs {
		parts = append(parts, h.String())
	}
	return "{" + strings.Join(parts, ", ") + "}"
}

type LockEvent struct {
	Kind   string // "call", "acquire", "release", "fieldwrite", "fieldread", "go", "wait"
	Call   *ast.CallExpr
	Keys   []string
	Op     *LockOp
	Field  *types.Var
	Node   ast.Node
	Held   []Held
	Ctx    string // "" | "defer" | "lit" | "go" (where the code runs relative to the function body)
	InLit  *ast.FuncLit
	Double bool      // acquire of a lock already held on this path
	Stray  bool      // release of a lock not held on this path
	Fn     *FuncInfo // function whose body contains the event
}

type LockResult struct {
	Fn     *FuncInfo
	Events []*LockEvent
	Exits  [][]Held // held sets at function exit (after defers)
	Notes  []string
}

// lock wrapper summaries: method key -> (field, op)
type wrapperSum struct {
	Field  string
	Class  string
	Mode   string
	Acq    bool
	Try    bool
	Global string // non-empty: the wrapper locks this package-level mutex
}

func syncOp(fn *types.Func) (mode string, acquire, try, ok bool) {
	if fn == nil || fn.Pkg() == nil || fn.Pkg().Path() != "sync" {
		return
	}
	sig := fn.Type().(*types.Signature)
	if sig.Recv() == nil {
		return
	}
	rt := sig.Recv().Type().String()
	if !strings.HasSuffix(rt, "sync.Mutex") && !strings.HasSuffix(rt, "sync.RWMutex") {
		return
	}
	switch fn.Name() {
	case "Lock":
		return "W", true, false, true
	case "Unlock":
		return "W", false, false, true
	case "RLock":
		return "R", true, false, true
	case "RUnlock":
		return "R", false, false, true
	case "TryLock":
		return "W", true, true, true
	case "TryRLock":
		return "R", true, true, true
	}
	return
}

// exprPath renders an access path (identifiers by name; & and parens dropped).
func exprPath(e ast.Expr) string {
	switch x := ast.Unparen(e).(type) {
	case *ast.Ident:
		return x.Name
	case *ast.SelectorExpr:
		return exprPath(x.X) + "." + x.Sel.Name
	case *ast.UnaryExpr:
		if x.Op == token.AND {
			return exprPath(x.X)
		}
	case *ast.StarExpr:
		return exprPath(x.X)
	case *ast.CallExpr:
		return exprPath(x.Fun) + "()"
	case *ast.IndexExpr:
		return exprPath(x.X) + "[]"
	}
	return types.ExprString(e)
}

// mutexClass names the mutex by the struct type that owns it and the field name.
func mutexClass(info *types.Info, recv ast.Expr) string {
	recv = ast.Unparen(recv)
	if u, ok := recv.(*ast.UnaryExpr); ok && u.Op == token.AND {
		recv = ast.Unparen(u.X)
	}
	if sel, ok := recv.(*ast.SelectorExpr); ok {
		if tv, ok := info.Types[sel.X]; ok {
			t := tv.Type
			if pt, ok := t.(*types.Pointer); ok {
				t = pt.Elem()
			}
			return canonTypeName(stripTypeArgs(shorten(t.String()))) + "." + canonFieldName(t, sel.Sel.Name)
		}
	}
	if tv, ok := info.Types[recv]; ok {
		// embedded mutex or a plain variable
		t := tv.Type
		if pt, ok := t.(*types.Pointer); ok {
			t = pt.Elem()
		}
		ts := stripTypeArgs(shorten(t.String()))
		if ts == "sync.Mutex" || ts == "sync.RWMutex" {
			return "local:" + exprPath(recv)
		}
		return ts + ".(embedded)"
	}
	return "?" + exprPath(recv)
}

func (p *Prog) lockWrappers() map[string]wrapperSum {
	if p.wrappers != nil {
		return p.wrappers
	}
	w := map[string]wrapperSum{}
	for k, fi := range p.Funcs {
		if fi.Decl.Recv == nil && fi.Decl.Body != nil && len(fi.Decl.Body.List) == 1 {
			// package-level wrapper around a package-level mutex: func LockX() { xM.Lock() }
			info := fi.Pkg.TypesInfo
			if es, ok := fi.Decl.Body.List[0].(*ast.ExprStmt); ok {
				if call, ok := es.X.(*ast.CallExpr); ok {
					fn, _ := typeutil.Callee(info, call).(*types.Func)
					if mode, acq, try, ok := syncOp(fn); ok {
						if sel, ok := call.Fun.(*ast.SelectorExpr); ok {
							if id, ok := ast.Unparen(sel.X).(*ast.Ident); ok {
								if v, ok := info.Uses[id].(*types.Var); ok && v.Parent() == fi.Pkg.Types.Scope() {
									w[k] = wrapperSum{Field: "", Class: shortPath(fi.Pkg.PkgPath) + "." + v.Name(), Mode: mode, Acq: acq, Try: try, Global: shortPath(fi.Pkg.PkgPath) + "." + v.Name()}
								}
							}
							// ... or a mutex field of the package's one state object: global.snapshotM.Lock()
							if in, ok := ast.Unparen(sel.X).(*ast.SelectorExpr); ok {
								if id, ok := ast.Unparen(in.X).(*ast.Ident); ok {
									if v, ok := info.Uses[id].(*types.Var); ok && v.Parent() == fi.Pkg.Types.Scope() {
										g := shortPath(fi.Pkg.PkgPath) + "." + v.Name() + "." + in.Sel.Name
										w[k] = wrapperSum{Field: "", Class: g, Mode: mode, Acq: acq, Try: try, Global: g}
									}
								}
							}
						}
					}
				}
			}
			continue
		}
		if fi.Decl.Recv == nil || fi.Decl.Body == nil || len(fi.Decl.Recv.List) != 1 || len(fi.Decl.Recv.List[0].Names) != 1 {
			continue
		}
		info := fi.Pkg.TypesInfo
		recv := info.Defs[fi.Decl.Recv.List[0].Names[0]]
		stmts := fi.Decl.Body.List
		// optional nil guard
		if len(stmts) == 2 {
			ifs, ok := stmts[0].(*ast.IfStmt)
			if !ok || ifs.Else != nil || len(ifs.Body.List) != 1 {
				continue
			}
			if _, isRet := ifs.Body.List[0].(*ast.ReturnStmt); !isRet {
				continue
			}
			if e := isNilCompare(info, ifs.Cond); e == nil || objOf(info, e) != recv {
				continue
			}
			stmts = stmts[1:]
		}
		// ... or the positive form of the nil guard: if recv != nil { recv.m.Lock() }
		if len(stmts) == 1 {
			if ifs, ok := stmts[0].(*ast.IfStmt); ok && ifs.Else == nil && ifs.Init == nil && len(ifs.Body.List) == 1 {
				if e := isNilCompare(info, ifs.Cond); e != nil && objOf(info, e) == recv {
					if be, ok := ast.Unparen(ifs.Cond).(*ast.BinaryExpr); ok && be.Op == token.NEQ {
						stmts = ifs.Body.List
					}
				}
			}
		}
		if len(stmts) != 1 {
			continue
		}
		var call *ast.CallExpr
		switch s := stmts[0].(type) {
		case *ast.ExprStmt:
			call, _ = s.X.(*ast.CallExpr)
		case *ast.ReturnStmt:
			if len(s.Results) == 1 {
				call, _ = s.Results[0].(*ast.CallExpr)
			}
		}
		if call == nil {
			continue
		}
		fn, _ := typeutil.Callee(info, call).(*types.Func)
		mode, acq, try, ok := syncOp(fn)
		if !ok {
			// recv.guard().Lock(): guard is a method of the same receiver that hands out the receiver's own mutex
			// (or a lock that does nothing when there is no receiver)
			if sel, isSel := call.Fun.(*ast.SelectorExpr); isSel {
				if gc, isCall := ast.Unparen(sel.X).(*ast.CallExpr); isCall && len(gc.Args) == 0 {
					if gsel, isGSel := ast.Unparen(gc.Fun).(*ast.SelectorExpr); isGSel && objOf(info, gsel.X) == recv {
						if g := p.staticCallee(fi.Pkg, gc); g != nil {
							if field, class, isGetter := p.lockGetter(g); isGetter {
								if m, a, t, named := lockOpByName(sel.Sel.Name); named {
									w[k] = wrapperSum{Field: field, Class: class, Mode: m, Acq: a, Try: t}
								}
							}
						}
					}
				}
			}
			continue
		}
		sel, ok := call.Fun.(*ast.SelectorExpr)
		if !ok {
			continue
		}
		inner, ok := ast.Unparen(sel.X).(*ast.SelectorExpr)
		if !ok || objOf(info, inner.X) != recv {
			continue
		}
		fieldName := inner.Sel.Name
		if tv, ok := info.Types[inner.X]; ok {
			fieldName = canonFieldName(tv.Type, fieldName)
		}
		w[k] = wrapperSum{Field: fieldName, Class: mutexClass(info, inner), Mode: mode, Acq: acq, Try: try}
	}
	// a function that does nothing but call a wrapper of a package-level mutex is such a wrapper itself
	// (processClock.LockSnapshot = sequence.LockSnapshot)
	for round := 0; round < 2; round++ {
		for k, fi := range p.Funcs {
			if _, done := w[k]; done || fi.Decl.Body == nil || len(fi.Decl.Body.List) != 1 {
				continue
			}
			es, ok := fi.Decl.Body.List[0].(*ast.ExprStmt)
			if !ok {
				continue
			}
			call, ok := es.X.(*ast.CallExpr)
			if !ok || len(call.Args) != 0 {
				continue
			}
			if fn, _ := typeutil.Callee(fi.Pkg.TypesInfo, call).(*types.Func); fn != nil {
				if inner, isW := w[fkey(fn)]; isW && inner.Global != "" {
					w[k] = inner
				}
			}
		}
	}
	p.wrappers = w
	return w
}

// ---- lock helpers beyond one-line wrappers ------------------------------------------------------------------

// lockHelperSum describes a function that (a) returns with locks held together with a function value that
// releases them ("defer u.lockBoth(tx)()"), and/or (b) runs a function-typed parameter while holding locks
// ("r.write(func() { ... })"). Paths are relative to the helper (receiver / parameter names).
type lockHelperSum struct {
	Acquires  []Held         // held at every exit, released by the returned function
	UnderLock map[int][]Held // parameter index -> locks held at every call of that parameter
	computed  bool
}

func (p *Prog) lockHelper(fi *FuncInfo) *lockHelperSum {
	if p.lockHelpers == nil {
		p.lockHelpers = map[string]*lockHelperSum{}
	}
	if sum, ok := p.lockHelpers[fi.Key]; ok {
		return sum
	}
	sum := &lockHelperSum{UnderLock: map[int][]Held{}}
	p.lockHelpers[fi.Key] = sum // recursion guard: an empty summary while computing
	if fi.Decl.Body == nil {
		return sum
	}
	info := fi.Pkg.TypesInfo
	sig := fi.Sig()
	returnsFunc := sig.Results().Len() == 1
	if returnsFunc {
		_, returnsFunc = sig.Results().At(0).Type().Underlying().(*types.Signature)
	}
	funcParams := map[types.Object]int{}
	for idx, po := range paramObjs(fi) {
		if po != nil && idx >= 0 {
			if _, isFn := po.Type().Underlying().(*types.Signature); isFn {
				funcParams[po] = idx
			}
		}
	}
	if !returnsFunc && len(funcParams) == 0 {
		return sum
	}
	lr := p.LockFlow(fi, nil)
	if returnsFunc && len(lr.Exits) > 0 {
		// same non-empty lockset at every exit
		first := lr.Exits[0]
		same := len(first) > 0
		for _, e := range lr.Exits[1:] {
			if heldString(e) != heldString(first) {
				same = false
			}
		}
		if same {
			// every returned value is a literal (or method value) that releases exactly these locks
			okAll, seen := true, false
			ast.Inspect(fi.Decl.Body, func(x ast.Node) bool {
				if _, isLit := x.(*ast.FuncLit); isLit {
					return false
				}
				rs, ok := x.(*ast.ReturnStmt)
				if !ok || len(rs.Results) != 1 {
					return true
				}
				seen = true
				switch r := ast.Unparen(rs.Results[0]).(type) {
				case *ast.FuncLit:
					la := &lockAnalyzer{p: p, fi: fi, res: &LockResult{Fn: fi}}
					exits := la.body(fi.Pkg, r.Body, lstate{held: append([]Held{}, first...)}, "lit", r)
					for _, e := range exits {
						if len(e.held) != 0 {
							okAll = false
						}
					}
					if len(exits) == 0 {
						okAll = false
					}
				case *ast.SelectorExpr, *ast.Ident:
					// a function value that releases the lock: x.m.Unlock, sequence.UnlockSnapshot, r.unlock
					okThis := false
					var fnObj *types.Func
					var recvExpr ast.Expr
					switch v := r.(type) {
					case *ast.SelectorExpr:
						fnObj, _ = info.Uses[v.Sel].(*types.Func)
						recvExpr = v.X
					case *ast.Ident:
						fnObj, _ = info.Uses[v].(*types.Func)
					}
					if fnObj != nil && len(first) == 1 {
						if mode, acq, _, isSync := syncOp(fnObj); isSync && !acq && recvExpr != nil && first[0].Mode == mode && first[0].Path == exprPath(recvExpr) {
							okThis = true
						}
						if w, isW := p.lockWrappers()[fkey(fnObj)]; isW && !w.Acq && w.Mode == first[0].Mode && w.Class == first[0].Class {
							okThis = true
						}
					}
					if !okThis {
						okAll = false
					}
				default:
					okAll = false
				}
				return true
			})
			if okAll && seen {
				sum.Acquires = first
			}
		}
	}
	for _, ev := range lr.Events {
		if ev.Kind != "call" || ev.Call == nil || ev.Ctx == "go" {
			continue
		}
		if o := objOf(info, ev.Call.Fun); o != nil {
			if idx, ok := funcParams[o]; ok {
				if prev, seen := sum.UnderLock[idx]; seen {
					var keep []Held
					for _, h := range prev {
						for _, g := range ev.Held {
							if g.Path == h.Path {
								keep = append(keep, h)
							}
						}
					}
					sum.UnderLock[idx] = keep
				} else {
					sum.UnderLock[idx] = append([]Held{}, ev.Held...)
				}
			}
		}
	}
	sum.computed = true
	return sum
}

// translateHeld rewrites helper-relative lock paths (leading receiver / parameter name) to the caller's
// expressions at a call site.
func translateHeld(hs []Held, callee *FuncInfo, c *ast.CallExpr) []Held {
	names := map[string]string{}
	args := argExprs(c, callee)
	for idx, po := range paramObjs(callee) {
		if po != nil && args[idx] != nil {
			names[po.Name()] = exprPath(args[idx])
		}
	}
	var res []Held
	for _, h := range hs {
		path := h.Path
		head, rest := path, ""
		if i := strings.Index(path, "."); i >= 0 {
			head, rest = path[:i], path[i:]
		}
		if to, ok := names[head]; ok {
			path = to + rest
		}
		res = append(res, Held{Path: path, Class: h.Class, Mode: h.Mode})
	}
	return res
}

func addHeld(s lstate, hs []Held) lstate {
	ns := s.clone()
	for _, h := range hs {
		if _, ok := ns.holds(h.Path); !ok {
			ns.held = append(ns.held, h)
		}
	}
	sort.Slice(ns.held, func(i, j int) bool { return ns.held[i].Path < ns.held[j].Path })
	return ns
}

func dropHeld(s lstate, hs []Held) lstate {
	ns := s.clone()
	var keep []Held
	for _, h := range ns.held {
		drop := false
		for _, g := range hs {
			if g.Path == h.Path {
				drop = true
			}
		}
		if !drop {
			keep = append(keep, h)
		}
	}
	ns.held = keep
	return ns
}

// lockOpOf recognises a lock operation (direct sync call or wrapper).
func (p *Prog) lockOpOf(pkg *packages.Package, c *ast.CallExpr) *LockOp {
	info := pkg.TypesInfo
	fn, _ := typeutil.Callee(info, c).(*types.Func)
	if fn == nil {
		return nil
	}
	if w, ok := p.lockWrappers()[fkey(fn)]; ok && w.Global != "" {
		return &LockOp{Path: w.Global, Class: w.Class, Mode: w.Mode, Acquire: w.Acq, Try: w.Try}
	}
	// the same through an interface whose implementations (by the wiring) are all wrappers of one global mutex
	if sig, _ := fn.Type().(*types.Signature); sig != nil && sig.Recv() != nil {
		if _, isIface := sig.Recv().Type().Underlying().(*types.Interface); isIface && fn.Pkg() != nil && strings.HasPrefix(fn.Pkg().Path(), modPrefix) {
			var sum *wrapperSum
			same := true
			n := 0
			for _, k := range p.calleeKeys(pkg, c) {
				if k == fkey(fn.Origin()) {
					continue
				}
				if fi := p.Func(k); fi == nil || fi.Decl.Recv == nil {
					continue // what a forwarder hands on to
				}
				w, ok := p.lockWrappers()[k]
				if !ok || w.Global == "" {
					same = false
					break
				}
				n++
				if sum == nil {
					ww := w
					sum = &ww
				} else if *sum != w {
					same = false
				}
			}
			if same && n > 0 && sum != nil {
				return &LockOp{Path: sum.Global, Class: sum.Class, Mode: sum.Mode, Acquire: sum.Acq, Try: sum.Try}
			}
		}
	}
	sel, ok := ast.Unparen(c.Fun).(*ast.SelectorExpr)
	if !ok {
		return nil
	}
	// the locker of a condition variable used as the mutex: x.cv.L.Lock() / Unlock()
	if fn.Pkg() != nil && fn.Pkg().Path() == "sync" && (fn.Name() == "Lock" || fn.Name() == "Unlock") {
		if ls, ok := ast.Unparen(sel.X).(*ast.SelectorExpr); ok && ls.Sel.Name == "L" {
			if tv, ok := info.Types[ls.X]; ok && strings.HasSuffix(tv.Type.String(), "sync.Cond") {
				class := "?cond.L"
				if cs, ok := ast.Unparen(ls.X).(*ast.SelectorExpr); ok {
					if otv, ok := info.Types[cs.X]; ok {
						t := otv.Type
						if pt, ok := t.(*types.Pointer); ok {
							t = pt.Elem()
						}
						class = canonTypeName(stripTypeArgs(shorten(t.String()))) + "." + cs.Sel.Name + ".L"
					}
				}
				return &LockOp{Path: exprPath(sel.X), Class: class, Mode: "W", Acquire: fn.Name() == "Lock"}
			}
		}
	}
	if mode, acq, try, ok := syncOp(fn); ok {
		path := exprPath(sel.X)
		if in, isSel := ast.Unparen(sel.X).(*ast.SelectorExpr); isSel {
			if tv, ok := info.Types[in.X]; ok {
				path = exprPath(in.X) + "." + canonFieldName(tv.Type, in.Sel.Name)
			}
		}
		class := mutexClass(info, sel.X)
		if strings.HasSuffix(class, ".(embedded)") {
			path += ".(embedded)"
		}
		return &LockOp{Path: path, Class: class, Mode: mode, Acquire: acq, Try: try}
	}
	if w, ok := p.lockWrappers()[fkey(fn)]; ok {
		return &LockOp{Path: exprPath(sel.X) + "." + w.Field, Class: w.Class, Mode: w.Mode, Acquire: w.Acq, Try: w.Try}
	}
	return nil
}

type lockAnalyzer struct {
	// exitRets (optional): return statements by the lock set held when they are reached (top-level body only)
	exitRets     map[string][]*ast.ReturnStmt
	p            *Prog
	fi           *FuncInfo
	res          *LockResult
	depth        int
	mutexStructs map[*types.Var]bool
}

// LockFlow analyses a declared function with an empty entry lockset (or the given one).
func (p *Prog) LockFlow(fi *FuncInfo, entry []Held) *LockResult {
	la := &lockAnalyzer{p: p, fi: fi, res: &LockResult{Fn: fi}}
	exits := la.body(fi.Pkg, fi.Decl.Body, lstate{held: append([]Held{}, entry...)}, "", nil)
	for _, e := range exits {
		la.res.Exits = append(la.res.Exits, e.held)
	}
	return la.res
}

// DeepLockEvents returns the lock events of fi followed by those of the same-package functions it calls on its
// own stack (not as goroutines), each analysed with the locks held at its call site; depth bounds the descent.
// Rules that ask "under which locks does this function do X" see X wherever a helper extraction has put it.
func (p *Prog) DeepLockEvents(fi *FuncInfo, entry []Held, depth int) []*LockEvent {
	return p.deepLockEvents(fi, entry, depth, map[string]bool{fi.Key: true})
}

func (p *Prog) deepLockEvents(fi *FuncInfo, entry []Held, depth int, open map[string]bool) []*LockEvent {
	lr := p.LockFlow(fi, entry)
	evs := append([]*LockEvent{}, lr.Events...)
	if depth <= 0 {
		return evs
	}
	for _, ev := range lr.Events {
		if ev.Kind != "call" || ev.Call == nil || ev.Ctx == "go" {
			continue
		}
		callee := p.staticCallee(fi.Pkg, ev.Call)
		if callee == nil || callee.Pkg != fi.Pkg || open[callee.Key] {
			continue
		}
		open[callee.Key] = true
		// lock paths are names: going down, the held locks are renamed to the callee's receiver and parameter
		// names (newTx.m held, publish(ctx, newTx) declared as publish(ctx, dst) -> dst.m); coming back, the
		// callee's events are renamed to the terms of fi, so that a rule reads them in the root function's names
		down, up := lockRenaming(fi, ev.Call, callee)
		entryC := make([]Held, len(ev.Held))
		for i, h := range ev.Held {
			entryC[i] = Held{Path: down(h.Path), Class: h.Class, Mode: h.Mode}
		}
		for _, ce := range p.deepLockEvents(callee, entryC, depth-1, open) {
			te := *ce
			te.Held = make([]Held, len(ce.Held))
			for i, h := range ce.Held {
				te.Held[i] = Held{Path: up(h.Path), Class: h.Class, Mode: h.Mode}
			}
			if ce.Op != nil {
				op := *ce.Op
				op.Path = up(op.Path)
				te.Op = &op
			}
			evs = append(evs, &te)
		}
		delete(open, callee.Key)
	}
	return evs
}

// lockRenaming returns the path renamings for a static call: down maps a path in the caller's terms to the
// callee's (argument -> parameter name), up the reverse. A caller path that no argument names is marked with a
// leading "^" inside the callee so that it cannot be confused with a callee variable of the same name.
func lockRenaming(caller *FuncInfo, c *ast.CallExpr, callee *FuncInfo) (down, up func(string) string) {
	type pair struct{ arg, param string }
	var pairs []pair
	args := argExprs(c, callee)
	for i, po := range paramObjs(callee) {
		if po == nil || args[i] == nil {
			continue
		}
		a := ast.Unparen(args[i])
		if u, ok := a.(*ast.UnaryExpr); ok && u.Op == token.AND {
			a = ast.Unparen(u.X)
		}
		switch a.(type) {
		case *ast.Ident, *ast.SelectorExpr:
			pairs = append(pairs, pair{types.ExprString(a), po.Name()})
		}
	}
	// longest argument first: u.allStore before u
	sort.Slice(pairs, func(i, j int) bool { return len(pairs[i].arg) > len(pairs[j].arg) })
	down = func(path string) string {
		for _, pr := range pairs {
			if path == pr.arg || strings.HasPrefix(path, pr.arg+".") {
				return pr.param + path[len(pr.arg):]
			}
		}
		return "^" + path
	}
	up = func(path string) string {
		if strings.HasPrefix(path, "^") {
			return path[1:]
		}
		for _, pr := range pairs {
			if path == pr.param || strings.HasPrefix(path, pr.param+".") {
				return pr.arg + path[len(pr.param):]
			}
		}
		return path
	}
	return down, up
}

func (la *lockAnalyzer) event(ev *LockEvent) {
	ev.Fn = la.fi
	la.res.Events = append(la.res.Events, ev)
}

func applyOp(s lstate, op *LockOp) (lstate, bool, bool) {
	ns := s.clone()
	double, stray := false, false
	if op.Acquire {
		if _, ok := ns.holds(op.Path); ok {
			double = true
		} else {
			ns.held = append(ns.held, Held{Path: op.Path, Class: op.Class, Mode: op.Mode})
			sort.Slice(ns.held, func(i, j int) bool { return ns.held[i].Path < ns.held[j].Path })
		}
	} else {
		idx := -1
		for i, h := range ns.held {
			if h.Path == op.Path {
				idx = i
			}
		}
		if idx < 0 {
			stray = true
		} else {
			ns.held = append(ns.held[:idx], ns.held[idx+1:]...)
		}
	}
	return ns, double, stray
}

// body runs the dataflow over one function/literal body and returns the states at its exits
// (after replaying the defers registered in this body).
func (la *lockAnalyzer) body(pkg *packages.Package, body *ast.BlockStmt, entry lstate, ctx string, inLit *ast.FuncLit) []lstate {
	if la.depth > 6 {
		la.res.Notes = append(la.res.Notes, "literal nesting too deep at "+la.p.pos(body))
		return []lstate{entry}
	}
	la.depth++
	defer func() { la.depth-- }()
	f := la.p.NewFlat(pkg, body)
	start := lstate{held: entry.held, unlockers: entry.unlockers, nils: entry.nils}
	in := map[int]map[string]lstate{}
	type item struct {
		id int
		s  lstate
	}
	var work []item
	push := func(id int, s lstate) {
		if in[id] == nil {
			in[id] = map[string]lstate{}
		}
		k := s.key()
		if _, ok := in[id][k]; !ok {
			in[id][k] = s
			work = append(work, item{id, s})
		}
	}
	push(f.Entry, start)
	var exits []lstate
	exitSeen := map[string]bool{}
	for len(work) > 0 {
		it := work[len(work)-1]
		work = work[:len(work)-1]
		n := f.Nodes[it.id]
		outs := la.transfer(pkg, f, n, it.s, ctx, inLit) // per edge label: 0 = all
		if n.Exit {
			for _, s := range outs[0] {
				for _, es := range la.runDefers(pkg, s, inLit) {
					if la.exitRets != nil && la.depth == 1 {
						if rs, isRet := n.Ast.(*ast.ReturnStmt); isRet {
							hk := heldString(es.held)
							la.exitRets[hk] = append(la.exitRets[hk], rs)
						}
					}
					k := es.key()
					if !exitSeen[k] {
						exitSeen[k] = true
						exits = append(exits, es)
					}
				}
			}
			continue
		}
		for _, e := range n.Succs {
			ss := outs[0]
			if o, ok := outs[e.Label]; ok && e.Label != 0 {
				ss = o
			}
			for _, s := range ss {
				push(e.To, s)
			}
		}
	}
	if len(exits) == 0 {
		// no reachable exit (infinite loop): nothing flows out
		return nil
	}
	// defers are local to this body
	for i := range exits {
		exits[i].defers = nil
	}
	return exits
}

// transfer applies one node; the result maps edge label (0 = every edge) to states.
func (la *lockAnalyzer) transfer(pkg *packages.Package, f *Flat, n *GNode, s lstate, ctx string, inLit *ast.FuncLit) map[int][]lstate {
	info := pkg.TypesInfo
	if n.Ast == nil {
		return map[int][]lstate{0: {s}}
	}
	switch st := n.Ast.(type) {
	case *ast.DeferStmt:
		ns := s.clone()
		// defer u.lockBoth(tx)(): the inner call runs now and takes the locks, the function it returns is deferred
		if inner, ok := ast.Unparen(st.Call.Fun).(*ast.CallExpr); ok {
			if callee := la.p.staticCallee(pkg, inner); callee != nil {
				if sum := la.p.lockHelper(callee); len(sum.Acquires) > 0 {
					hs := translateHeld(sum.Acquires, callee, inner)
					for _, h := range hs {
						la.event(&LockEvent{Kind: "acquire", Call: inner, Op: &LockOp{Path: h.Path, Class: h.Class, Mode: h.Mode, Acquire: true}, Node: st, Held: ns.held, Ctx: ctx, InLit: inLit})
						ns = addHeld(ns, []Held{h})
					}
				}
			}
		}
		ns.defers = append(ns.defers, st)
		// arguments of the deferred call are evaluated now, but lock-relevant deferred calls have none
		return map[int][]lstate{0: {ns}}
	case *ast.GoStmt:
		la.event(&LockEvent{Kind: "go", Call: st.Call, Keys: la.p.calleeKeys(pkg, st.Call), Node: st, Held: s.held, Ctx: ctx, InLit: inLit})
		if lit, ok := st.Call.Fun.(*ast.FuncLit); ok {
			la.body(pkg, lit.Body, lstate{}, "go", lit)
		}
		return map[int][]lstate{0: {s}}
	}
	// field accesses
	la.fieldEvents(pkg, n.Ast, s, ctx, inLit)
	// a test of a local whose nil-ness a lock helper decided
	if n.IsCond && len(s.nils) > 0 {
		if x := isNilCompare(info, n.Ast.(ast.Expr)); x != nil {
			if isNil, known := s.nils[objOf(info, x)]; known {
				be := ast.Unparen(n.Ast.(ast.Expr)).(*ast.BinaryExpr)
				condTrue := isNil
				if be.Op == token.NEQ {
					condTrue = !isNil
				}
				if condTrue {
					return map[int][]lstate{1: {s}, 2: {}, 0: {s}}
				}
				return map[int][]lstate{1: {}, 2: {s}, 0: {s}}
			}
		}
	}
	// try-lock in a condition
	if n.IsCond {
		cond := ast.Unparen(n.Ast.(ast.Expr))
		neg := false
		if u, ok := cond.(*ast.UnaryExpr); ok && u.Op == token.NOT {
			neg = true
			cond = ast.Unparen(u.X)
		}
		if c, ok := cond.(*ast.CallExpr); ok {
			if op := la.p.lockOpOf(pkg, c); op != nil && op.Try {
				got, double, _ := applyOp(s, op)
				la.event(&LockEvent{Kind: "acquire", Call: c, Op: op, Node: n.Ast, Held: s.held, Ctx: ctx, InLit: inLit, Double: double})
				if neg {
					return map[int][]lstate{1: {s}, 2: {got}, 0: {s, got}}
				}
				return map[int][]lstate{1: {got}, 2: {s}, 0: {s, got}}
			}
		}
	}
	cur := []lstate{s}
	for _, c := range callsIn(n.Ast, false) {
		var next []lstate
		for _, cs := range cur {
			next = append(next, la.applyCall(pkg, info, n, c, cs, ctx, inLit)...)
		}
		cur = dedupStates(next)
	}
	return map[int][]lstate{0: cur}
}

func dedupStates(ss []lstate) []lstate {
	seen := map[string]bool{}
	var res []lstate
	for _, s := range ss {
		k := s.key()
		if !seen[k] {
			seen[k] = true
			res = append(res, s)
		}
	}
	return res
}

func (la *lockAnalyzer) applyCall(pkg *packages.Package, info *types.Info, n *GNode, c *ast.CallExpr, s lstate, ctx string, inLit *ast.FuncLit) []lstate {
	if op := la.p.lockOpOf(pkg, c); op != nil {
		if op.Try {
			// a try-lock outside a condition: result ignored, state unknown -> both
			got, _, _ := applyOp(s, op)
			la.event(&LockEvent{Kind: "acquire", Call: c, Op: op, Node: n.Ast, Held: s.held, Ctx: ctx, InLit: inLit})
			return []lstate{s, got}
		}
		ns, double, stray := applyOp(s, op)
		kind := "release"
		if op.Acquire {
			kind = "acquire"
		}
		la.event(&LockEvent{Kind: kind, Call: c, Op: op, Node: n.Ast, Held: s.held, Ctx: ctx, InLit: inLit, Double: double, Stray: stray})
		return []lstate{ns}
	}
	// unlock() where unlock := helper(args)
	if o := objOf(info, c.Fun); o != nil {
		for _, u := range s.unlockers {
			if u.obj == o {
				for _, h := range u.held {
					la.event(&LockEvent{Kind: "release", Call: c, Op: &LockOp{Path: h.Path, Class: h.Class, Mode: h.Mode}, Node: n.Ast, Held: s.held, Ctx: ctx, InLit: inLit})
				}
				return []lstate{dropHeld(s, u.held)}
			}
		}
	}
	keys := la.p.calleeKeys(pkg, c)
	kind := "call"
	la.event(&LockEvent{Kind: kind, Call: c, Keys: keys, Node: n.Ast, Held: s.held, Ctx: ctx, InLit: inLit})
	var helper *lockHelperSum
	var helperFI *FuncInfo
	if callee := la.p.staticCallee(pkg, c); callee != nil {
		helper, helperFI = la.p.lockHelper(callee), callee
	}
	// unlock := helper(args): the locks are held from here on, the variable releases them
	if helper != nil && len(helper.Acquires) > 0 {
		hs := translateHeld(helper.Acquires, helperFI, c)
		ns := s
		for _, h := range hs {
			la.event(&LockEvent{Kind: "acquire", Call: c, Op: &LockOp{Path: h.Path, Class: h.Class, Mode: h.Mode, Acquire: true}, Node: n.Ast, Held: ns.held, Ctx: ctx, InLit: inLit})
			ns = addHeld(ns, []Held{h})
		}
		if as, ok := n.Ast.(*ast.AssignStmt); ok && len(as.Lhs) == 1 && len(as.Rhs) == 1 && ast.Unparen(as.Rhs[0]) == ast.Expr(c) {
			if o := objOf(info, as.Lhs[0]); o != nil {
				ns = ns.clone()
				ns.unlockers = append(ns.unlockers, unlocker{obj: o, held: hs})
			}
		}
		return []lstate{ns}
	}
	// a helper with a net effect on the lock set: lockWithAll(tx) / unlockWithAll(tx) / tx := detachTx(id)
	if helperFI != nil {
		if net := la.p.lockNet(helperFI); net != nil && (len(net.Acq) > 0 || len(net.Rel) > 0) {
			var lhs ast.Expr
			if as, ok := n.Ast.(*ast.AssignStmt); ok && len(as.Rhs) == 1 && ast.Unparen(as.Rhs[0]) == ast.Expr(c) && len(as.Lhs) >= 1 {
				lhs = as.Lhs[0]
			}
			rel := translateNet(net.Rel, helperFI, c, net.ResultVar, lhs)
			acq := translateNet(net.Acq, helperFI, c, net.ResultVar, lhs)
			ns := s
			for _, h := range rel {
				_, held := ns.holds(h.Path)
				la.event(&LockEvent{Kind: "release", Call: c, Op: &LockOp{Path: h.Path, Class: h.Class, Mode: h.Mode}, Node: n.Ast, Held: ns.held, Ctx: ctx, InLit: inLit, Stray: !held})
				ns = dropHeld(ns, []Held{h})
			}
			base := ns
			for _, h := range acq {
				_, double := ns.holds(h.Path)
				la.event(&LockEvent{Kind: "acquire", Call: c, Op: &LockOp{Path: h.Path, Class: h.Class, Mode: h.Mode, Acquire: true}, Node: n.Ast, Held: ns.held, Ctx: ctx, InLit: inLit, Double: double})
				ns = addHeld(ns, []Held{h})
			}
			if net.NilSplit && lhs != nil {
				if o := objOf(info, lhs); o != nil {
					a, b := base.clone(), ns.clone()
					if a.nils == nil {
						a.nils = map[types.Object]bool{}
					}
					if b.nils == nil {
						b.nils = map[types.Object]bool{}
					}
					a.nils[o], b.nils[o] = true, false
					return []lstate{a, b}
				}
				return []lstate{base, ns}
			}
			return []lstate{ns}
		}
	}
	// function literals passed as arguments run synchronously inside the callee
	out := []lstate{s}
	for ai, a := range c.Args {
		if lit, ok := ast.Unparen(a).(*ast.FuncLit); ok {
			var next []lstate
			for _, cs := range out {
				entryHeld := cs.held
				var under []Held
				if helper != nil {
					// the helper runs its function parameter under its own locks: r.write(func() { ... })
					if hs, ok := helper.UnderLock[ai]; ok && len(hs) > 0 {
						under = translateHeld(hs, helperFI, c)
						entryHeld = addHeld(lstate{held: cs.held}, under).held
					}
				}
				exits := la.body(pkg, lit.Body, lstate{held: entryHeld}, "lit", lit)
				if len(under) > 0 {
					// the helper releases its locks after the literal returned
					for i := range exits {
						exits[i] = lstate{held: dropHeld(exits[i], under).held}
					}
				}
				if len(exits) == 0 {
					next = append(next, cs)
				}
				for _, e := range exits {
					ns := cs.clone()
					ns.held = e.held
					next = append(next, ns)
				}
			}
			out = dedupStates(next)
		}
	}
	// immediately invoked literal: func(){...}()
	if lit, ok := ast.Unparen(c.Fun).(*ast.FuncLit); ok {
		var next []lstate
		for _, cs := range out {
			for _, e := range la.body(pkg, lit.Body, lstate{held: cs.held}, "lit", lit) {
				ns := cs.clone()
				ns.held = e.held
				next = append(next, ns)
			}
		}
		if len(next) > 0 {
			out = dedupStates(next)
		}
	}
	return out
}

// runDefers replays the registered defers LIFO on the state at an exit.
func (la *lockAnalyzer) runDefers(pkg *packages.Package, s lstate, inLit *ast.FuncLit) []lstate {
	cur := []lstate{{held: s.held}}
	for i := len(s.defers) - 1; i >= 0; i-- {
		ds := s.defers[i].(*ast.DeferStmt)
		var next []lstate
		for _, cs := range cur {
			if lit, ok := ds.Call.Fun.(*ast.FuncLit); ok {
				// (the release functions the function holds in locals are known to its deferred closures)
				exits := la.body(pkg, lit.Body, lstate{held: cs.held, unlockers: s.unlockers, nils: s.nils}, "defer", lit)
				if len(exits) == 0 {
					next = append(next, cs)
				}
				for _, e := range exits {
					next = append(next, lstate{held: e.held})
				}
				continue
			}
			if op := la.p.lockOpOf(pkg, ds.Call); op != nil {
				ns, double, stray := applyOp(cs, op)
				kind := "release"
				if op.Acquire {
					kind = "acquire"
				}
				la.event(&LockEvent{Kind: kind, Call: ds.Call, Op: op, Node: ds, Held: cs.held, Ctx: "defer", InLit: inLit, Double: double, Stray: stray})
				next = append(next, lstate{held: ns.held})
				continue
			}
			// defer helper(args)(): the returned release function runs now
			if inner, ok := ast.Unparen(ds.Call.Fun).(*ast.CallExpr); ok {
				if callee := la.p.staticCallee(pkg, inner); callee != nil {
					if sum := la.p.lockHelper(callee); len(sum.Acquires) > 0 {
						hs := translateHeld(sum.Acquires, callee, inner)
						for _, h := range hs {
							la.event(&LockEvent{Kind: "release", Call: ds.Call, Op: &LockOp{Path: h.Path, Class: h.Class, Mode: h.Mode}, Node: ds, Held: cs.held, Ctx: "defer", InLit: inLit})
						}
						next = append(next, lstate{held: dropHeld(cs, hs).held})
						continue
					}
				}
			}
			// defer u.unlockWithAll(tx) / defer u.discardTx(tx): a helper with a net effect on the lock set
			if callee := la.p.staticCallee(pkg, ds.Call); callee != nil {
				if net := la.p.lockNet(callee); net != nil && !net.NilSplit && (len(net.Acq) > 0 || len(net.Rel) > 0) {
					ns := lstate{held: cs.held}
					for _, h := range translateNet(net.Rel, callee, ds.Call, "", nil) {
						_, held := ns.holds(h.Path)
						la.event(&LockEvent{Kind: "release", Call: ds.Call, Op: &LockOp{Path: h.Path, Class: h.Class, Mode: h.Mode}, Node: ds, Held: ns.held, Ctx: "defer", InLit: inLit, Stray: !held})
						ns = dropHeld(ns, []Held{h})
					}
					for _, h := range translateNet(net.Acq, callee, ds.Call, "", nil) {
						la.event(&LockEvent{Kind: "acquire", Call: ds.Call, Op: &LockOp{Path: h.Path, Class: h.Class, Mode: h.Mode, Acquire: true}, Node: ds, Held: ns.held, Ctx: "defer", InLit: inLit})
						ns = addHeld(ns, []Held{h})
					}
					la.event(&LockEvent{Kind: "call", Call: ds.Call, Keys: la.p.calleeKeys(pkg, ds.Call), Node: ds, Held: cs.held, Ctx: "defer", InLit: inLit})
					next = append(next, lstate{held: ns.held})
					continue
				}
			}
			// defer unlock() with unlock := helper(args)
			if o := objOf(pkg.TypesInfo, ds.Call.Fun); o != nil {
				released := false
				for _, u := range s.unlockers {
					if u.obj == o {
						for _, h := range u.held {
							la.event(&LockEvent{Kind: "release", Call: ds.Call, Op: &LockOp{Path: h.Path, Class: h.Class, Mode: h.Mode}, Node: ds, Held: cs.held, Ctx: "defer", InLit: inLit})
						}
						next = append(next, lstate{held: dropHeld(cs, u.held).held})
						released = true
					}
				}
				if released {
					continue
				}
			}
			la.event(&LockEvent{Kind: "call", Call: ds.Call, Keys: la.p.calleeKeys(pkg, ds.Call), Node: ds, Held: cs.held, Ctx: "defer", InLit: inLit})
			next = append(next, cs)
		}
		cur = dedupStates(next)
	}
	return cur
}

// fieldEvents records reads/writes of struct fields in the node (function literals excluded).
func (la *lockAnalyzer) fieldEvents(pkg *packages.Package, node ast.Node, s lstate, ctx string, inLit *ast.FuncLit) {
	info := pkg.TypesInfo
	writes := map[*ast.SelectorExpr]bool{}
	markW := func(e ast.Expr) {
		for {
			switch x := ast.Unparen(e).(type) {
			case *ast.IndexExpr:
				e = x.X
				continue
			case *ast.StarExpr:
				e = x.X
				continue
			case *ast.SelectorExpr:
				writes[x] = true
			}
			return
		}
	}
	switch st := node.(type) {
	case *ast.AssignStmt:
		for _, l := range st.Lhs {
			markW(l)
		}
	case *ast.IncDecStmt:
		markW(st.X)
	}
	walkNoLit(node, func(x ast.Node) bool {
		// delete(m.f, k), clear(m.f), append target are writes
		if c, ok := x.(*ast.CallExpr); ok {
			if id, ok := c.Fun.(*ast.Ident); ok {
				if _, isB := info.Uses[id].(*types.Builtin); isB && (id.Name == "delete" || id.Name == "clear") && len(c.Args) > 0 {
					markW(c.Args[0])
				}
			}
		}
		sel, ok := x.(*ast.SelectorExpr)
		if !ok {
			return true
		}
		fv, ok := info.Uses[sel.Sel].(*types.Var)
		if !ok || !fv.IsField() {
			return true
		}
		kind := "fieldread"
		if writes[sel] {
			kind = "fieldwrite"
		}
		la.event(&LockEvent{Kind: kind, Field: fv, Node: sel, Held: s.held, Ctx: ctx, InLit: inLit})
		return true
	})
}

// ---------------------------------------------------------------------------
// queries

// eventsCalling returns the call events whose callee set contains one of keys.
func (lr *LockResult) eventsCalling(keys ...string) []*LockEvent {
	var res []*LockEvent
	for _, e := range lr.Events {
		if e.Kind != "call" {
			continue
		}
		for _, k := range e.Keys {
			for _, w := range keys {
				if k == w {
					res = append(res, e)
					goto next
				}
			}
		}
	next:
	}
	return res
}

func holdsMode(hs []Held, path, mode string) bool {
	for _, h := range hs {
		if h.Path == path && (mode == "R" || h.Mode == "W") {
			return true
		}
	}
	return false
}

func holdsClass(hs []Held, class, mode string) bool {
	for _, h := range hs {
		if h.Class == class && (mode == "R" || h.Mode == "W") {
			return true
		}
	}
	return false
}

// lockNetSum: the net effect of a function of the module on the lock set of its caller, in the function's own
// names: Rel are locks it releases that it did not take (the caller's), Acq locks it still holds when it returns.
// NilSplit: it returns a pointer and holds Acq exactly when that pointer is not nil (ResultVar is the local it
// returns); on the nil path it holds nothing.
type lockNetSum struct {
	Acq, Rel  []Held
	NilSplit  bool
	ResultVar string
}

func (p *Prog) lockNet(fi *FuncInfo) *lockNetSum {
	if p.lockNets == nil {
		p.lockNets = map[string]*lockNetSum{}
	}
	if sum, ok := p.lockNets[fi.Key]; ok {
		return sum
	}
	p.lockNets[fi.Key] = nil // recursion guard
	if fi.Decl == nil || fi.Decl.Body == nil || fi.Lit != nil {
		return nil
	}
	if _, isW := p.lockWrappers()[fi.Key]; isW {
		return nil
	}
	if h := p.lockHelper(fi); h != nil && (len(h.Acquires) > 0 || len(h.UnderLock) > 0) {
		return nil
	}
	// cheap pre-test: the body (without literals) performs a lock operation or calls a function that has a net effect
	touches := false
	walkNoLit(fi.Decl.Body, func(x ast.Node) bool {
		if c, ok := x.(*ast.CallExpr); ok {
			if p.lockOpOf(fi.Pkg, c) != nil {
				touches = true
			} else if callee := p.staticCallee(fi.Pkg, c); callee != nil && callee != fi {
				if n := p.lockNet(callee); n != nil && (len(n.Acq) > 0 || len(n.Rel) > 0) {
					touches = true
				}
			}
		}
		return true
	})
	if !touches {
		return nil
	}
	info := fi.Pkg.TypesInfo
	run := func(entry []Held) (*LockResult, map[string][]*ast.ReturnStmt) {
		la := &lockAnalyzer{p: p, fi: fi, res: &LockResult{Fn: fi}, exitRets: map[string][]*ast.ReturnStmt{}}
		exits := la.body(fi.Pkg, fi.Decl.Body, lstate{held: append([]Held{}, entry...)}, "", nil)
		for _, e := range exits {
			la.res.Exits = append(la.res.Exits, e.held)
		}
		return la.res, la.exitRets
	}
	lr, _ := run(nil)
	var rel []Held
	seenRel := map[string]bool{}
	for _, ev := range lr.Events {
		if ev.Kind == "release" && ev.Stray && ev.Op != nil && ev.Ctx != "go" && ev.InLit == nil && !seenRel[ev.Op.Path] {
			seenRel[ev.Op.Path] = true
			rel = append(rel, Held{Path: ev.Op.Path, Class: ev.Op.Class, Mode: ev.Op.Mode})
		}
	}
	// with the caller's locks in hand: what is held at the exits
	lr2, rets := run(rel)
	groups := map[string][]Held{}
	for _, e := range lr2.Exits {
		groups[heldString(e)] = e
	}
	for _, ev := range lr2.Events {
		if ev.Kind == "release" && ev.Stray && ev.InLit == nil && ev.Ctx != "go" {
			return nil // a release that is not covered on some path: no summary
		}
	}
	sum := &lockNetSum{Rel: rel}
	switch len(groups) {
	case 0:
		return nil
	case 1:
		for _, h := range groups {
			sum.Acq = h
		}
	case 2:
		empty, hasEmpty := groups["{}"]
		_ = empty
		if !hasEmpty || len(rel) > 0 {
			return nil
		}
		var other []Held
		otherKey := ""
		for k, h := range groups {
			if k != "{}" {
				other, otherKey = h, k
			}
		}
		// the empty exits return nil, the others a local variable
		okNil := len(rets["{}"]) > 0
		for _, rs := range rets["{}"] {
			if len(rs.Results) != 1 || !isNilIdent(info, rs.Results[0]) {
				okNil = false
			}
		}
		resVar := ""
		okVar := len(rets[otherKey]) > 0
		for _, rs := range rets[otherKey] {
			if len(rs.Results) != 1 {
				okVar = false
				continue
			}
			id, isId := ast.Unparen(rs.Results[0]).(*ast.Ident)
			if !isId || isNilIdent(info, id) || (resVar != "" && resVar != id.Name) {
				okVar = false
				continue
			}
			resVar = id.Name
		}
		if !okNil || !okVar {
			return nil
		}
		sum.Acq, sum.NilSplit, sum.ResultVar = other, true, resVar
	default:
		return nil
	}
	if len(sum.Acq) == 0 && len(sum.Rel) == 0 {
		return nil
	}
	// a function that returns the local whose lock it holds (without the nil split): the result names the path
	if sum.ResultVar == "" && len(sum.Acq) > 0 {
		walkNoLit(fi.Decl.Body, func(x ast.Node) bool {
			if rs, ok := x.(*ast.ReturnStmt); ok && len(rs.Results) >= 1 {
				if id, isId := ast.Unparen(rs.Results[0]).(*ast.Ident); isId && !isNilIdent(info, id) {
					sum.ResultVar = id.Name
				}
			}
			return true
		})
	}
	p.lockNets[fi.Key] = sum
	return sum
}

// translateNet rewrites helper-relative lock paths to the caller's terms: parameters and receiver by the
// arguments, the returned local by the variable the call is assigned to.
func translateNet(hs []Held, callee *FuncInfo, c *ast.CallExpr, resultVar string, lhs ast.Expr) []Held {
	res := translateHeld(hs, callee, c)
	if resultVar != "" && lhs != nil {
		to := exprPath(lhs)
		for i, h := range hs {
			if h.Path == resultVar || strings.HasPrefix(h.Path, resultVar+".") {
				// only when the head is not also a parameter name (translateHeld already handled those)
				isParam := false
				for _, po := range paramObjs(callee) {
					if po != nil && po.Name() == resultVar {
						isParam = true
					}
				}
				if !isParam {
					res[i].Path = to + h.Path[len(resultVar):]
				}
			}
		}
	}
	return res
}

func lockOpByName(name string) (mode string, acquire, try, ok bool) {
	switch name {
	case "Lock":
		return "W", true, false, true
	case "Unlock":
		return "W", false, false, true
	case "RLock":
		return "R", true, false, true
	case "RUnlock":
		return "R", false, false, true
	case "TryLock":
		return "W", true, true, true
	case "TryRLock":
		return "R", true, true, true
	}
	return
}

// lockGetter: a method whose every return hands out the address of one mutex field of its receiver, or - under a
// test of the receiver for nil - a value of a type of the module whose methods all do nothing.
func (p *Prog) lockGetter(g *FuncInfo) (field, class string, ok bool) {
	if g.Decl == nil || g.Decl.Body == nil || g.Decl.Recv == nil || len(g.Decl.Recv.List) != 1 || len(g.Decl.Recv.List[0].Names) != 1 {
		return "", "", false
	}
	info := g.Pkg.TypesInfo
	recv := info.Defs[g.Decl.Recv.List[0].Names[0]]
	good, n := true, 0
	walkNoLit(g.Decl.Body, func(x ast.Node) bool {
		switch x.(type) {
		case *ast.ReturnStmt, *ast.IfStmt, *ast.BlockStmt, *ast.BinaryExpr, *ast.Ident, *ast.UnaryExpr, *ast.SelectorExpr, *ast.CompositeLit, *ast.ParenExpr, *ast.BasicLit:
		case *ast.CallExpr, *ast.AssignStmt, *ast.ExprStmt, *ast.ForStmt, *ast.RangeStmt, *ast.GoStmt, *ast.DeferStmt:
			good = false
		}
		rs, isRet := x.(*ast.ReturnStmt)
		if !isRet {
			return true
		}
		if len(rs.Results) != 1 {
			good = false
			return true
		}
		e := ast.Unparen(rs.Results[0])
		if u, isAddr := e.(*ast.UnaryExpr); isAddr && u.Op == token.AND {
			if sel, isSel := ast.Unparen(u.X).(*ast.SelectorExpr); isSel && objOf(info, sel.X) == recv {
				if fv, isVar := info.Uses[sel.Sel].(*types.Var); isVar && isSyncMutex(fv.Type()) {
					f := sel.Sel.Name
					if tv, has := info.Types[sel.X]; has {
						f = canonFieldName(tv.Type, f)
					}
					if field != "" && field != f {
						good = false
					}
					field, class = f, mutexClass(info, sel)
					n++
					return true
				}
			}
			good = false
			return true
		}
		// a lock that does nothing
		if tv, has := info.Types[e]; has && p.isNoOpLockType(tv.Type) {
			return true
		}
		good = false
		return true
	})
	return field, class, good && n > 0
}

// isNoOpLockType: a named type of the module with at least Lock and Unlock, all of whose methods have empty bodies.
func (p *Prog) isNoOpLockType(t types.Type) bool {
	nt, ok := t.(*types.Named)
	if !ok || nt.NumMethods() < 2 {
		return false
	}
	has := map[string]bool{}
	for i := 0; i < nt.NumMethods(); i++ {
		m := nt.Method(i)
		fi := p.Funcs[fkey(m)]
		if fi == nil || fi.Decl == nil || fi.Decl.Body == nil || len(fi.Decl.Body.List) != 0 {
			return false
		}
		has[m.Name()] = true
	}
	return has["Lock"] && has["Unlock"]
}
