package main

// C04 Crash safety: order of persistent effects on every path.

import (
	"fmt"
	"go/ast"
	"go/types"
	"sort"
	"strings"
)

func init() { register("C04", propC04) }

const (
	kCleanDeleteFile = "(*internal/usecase/cleaner.UseCase).deleteFile"
	kContentDelete   = "(*internal/repository/content.Repo).Delete"
	kDirAdd          = "(*internal/repository/dir.Repo).Add"
	kCFDelete        = "(*internal/repository/content_file.Repo).Delete"
	kFileDelete      = "(*internal/repository/file.Repo).Delete"
	kCoreLoad        = "(*internal/usecase/core.UseCase).Load"
	kFileGetAllRepo  = "(*internal/repository/file.Repo).GetAll"
)

func propC04(p *Prog, r *Report) {
	r.Rule("C04.a", "write order (= C01.b): content file -> content record -> version record, each error-gated, all before the success return; Badger write before in-memory publication")
	r.Rule("C04.b", "commit batch (= C03.a/b): every version write of a commit lies inside the single RunTransaction literal and uses the literal's context; the Badger transaction stored in the context has the type Manager.DB asserts")
	r.Rule("C04.c", "deletion order / restartability in cleaner.deleteFile: content-record lookup (ErrNotFound = already gone, accepted early exit) -> content removed (ErrNotFound tolerated) -> directory re-registered -> content record deleted -> version record deleted, each error-gated, version record last")
	r.Rule("C04.d", "who may touch persistent state: os.Create/Remove wrappers are called only from repository/content, MkdirAll only from repository/dir and utils/disk, the Badger mutators only from repository/file and repository/content_file, the three Delete repositories only from the cleaner; no product package calls the os package's mutators directly except the utils/os shim")
	r.Rule("C04.e", "recovery rule in Load, evaluated per record over all cases (non-main | main first | main older | main newer than the kept one; tie is don't-care): a non-main record goes to the delete list and is not kept; the larger sequence stays and the loser goes to the delete list; only kept records are published; the delete list is returned")
	r.NotDecided = []string{"the state actually recovered after a kill at the n-th mutation", "Badger's own crash consistency (trusted; SyncWrites=false: process kill, not power loss)", "torn content files"}
	r.Assume = []string{"Badger Update is atomic and durable against process kill"}

	storeSetChain(p, r, "C04.a")
	c03Batch(p, r, "C04.b")
	c04DeleteOrder(p, r, "C04.c")
	c04WhoMay(p, r, "C04.d")
	c04Recovery(p, r, "C04.e")
	r.Rule("C04.g", "recovery first: in both constructors Load (error-gated) precedes the scheduling of the collector, and the records recovery drops are handed to the cleaner")
	c04CtorOrder(p, r, "C04.g")
	r.Rule("C04.h", "durable before acknowledged in the Badger layer: every write transaction is a synchronous DB.Update (or an explicit transaction whose Commit error is consumed); CommitWith and write batches are not used")
	c04SyncCommit(p, r, "C04.h")
	r.Rule("C04.i", "what recovery reads is what was written: bytes of Badger iterator items (Item.Key(), the value handed to Item.Value's callback) are copied before they leave the iteration (= C19.f)")
	c19IteratorCopies(p, r, "C04.i")
}

func c04DeleteOrder(p *Prog, r *Report, rule string) {
	fi := p.Func(kCleanDeleteFile)
	merged := false
	if fi == nil {
		merged = true
		// the per-file removal may have been merged into its caller: the function of the cleaner that removes the
		// content file is the one whose steps are ordered
		for _, k := range sortedFuncKeys(p) {
			c := p.Funcs[k]
			if c.Decl != nil && c.Decl.Body != nil && shortPath(c.Pkg.PkgPath) == "internal/usecase/cleaner" && len(p.FlatOf(c).CallNodes(kContentDelete)) > 0 {
				fi = c
			}
		}
	}
	if fi == nil {
		r.Undecided(rule, kCleanDeleteFile, "", "cleaner.deleteFile not found")
		return
	}
	f := p.FlatOf(fi)
	f.CheckChain(r, rule, fi, []step{
		{Name: "content record looked up", Keys: []string{kCFGet}, EarlyExit: []string{"is:fs_db.ErrNotFound"}},
		{Name: "content file removed", Keys: []string{kContentDelete}, Tolerated: []string{"is:fs_db.ErrNotFound"}},
		{Name: "directory re-registered", Keys: []string{kDirAdd}},
		{Name: "content record deleted", Keys: []string{kCFDelete}},
		{Name: "version record deleted", Keys: []string{kFileDelete}, LastInLoop: merged},
	})
}

// cleanerStepFunc: the function of the cleaner that removes one file's content and records: deleteFile, or the
// function its body was merged into.
func cleanerStepFunc(p *Prog) *FuncInfo {
	if fi := p.Func(kCleanDeleteFile); fi != nil {
		return fi
	}
	var res *FuncInfo
	for _, k := range sortedFuncKeys(p) {
		c := p.Funcs[k]
		if c.Decl != nil && c.Decl.Body != nil && shortPath(c.Pkg.PkgPath) == "internal/usecase/cleaner" && len(p.FlatOf(c).CallNodes(kContentDelete)) > 0 {
			res = c
		}
	}
	return res
}

func c04WhoMay(p *Prog, r *Report, rule string) {
	cg := p.CallGraph()
	type who struct {
		target  string
		allowed []string // package short paths
	}
	rules := []who{
		{"internal/utils/os.Create", []string{"internal/repository/content"}},
		{"internal/utils/os.Remove", []string{"internal/repository/content"}},
		{"internal/utils/os.MkdirAll", []string{"internal/repository/dir", "internal/utils/disk"}},
		{"(*internal/db/badger.Manager).Set", []string{"internal/repository/file", "internal/repository/content_file", "internal/db/badger"}},
		{"(*internal/db/badger.Manager).Delete", []string{"internal/repository/file", "internal/repository/content_file", "internal/db/badger"}},
		{"(internal/db/badger.QueryManager).Set", []string{"internal/repository/file", "internal/repository/content_file", "internal/db/badger"}},
		{"(internal/db/badger.QueryManager).Delete", []string{"internal/repository/file", "internal/repository/content_file", "internal/db/badger"}},
		{kContentDelete, []string{"internal/usecase/cleaner"}},
		{kCFDelete, []string{"internal/usecase/cleaner"}},
		{kFileDelete, []string{"internal/usecase/cleaner"}},
		{kFileRepoSet, []string{"internal/usecase/core", "cmd/migrate"}},
		{kCFStore, []string{"internal/usecase/store", "cmd/migrate"}},
	}
	pkgOfKey := func(k string) string {
		if fi := p.Funcs[k]; fi != nil {
			return shortPath(fi.Pkg.PkgPath)
		}
		return ""
	}
	for _, w := range rules {
		callers := cg.In[w.target]
		ok := true
		for _, c := range callers {
			pk := pkgOfKey(c)
			allowed := false
			for _, a := range w.allowed {
				if pk == a {
					allowed = true
				}
			}
			if !allowed {
				ok = false
				r.Viol(rule, "who-may-call "+w.target, p.pos(p.Funcs[c].Decl), fmt.Sprintf("%s calls %s; only %v may", c, w.target, w.allowed))
			}
		}
		if ok {
			r.Hold(rule, "who-may-call "+w.target, "", fmt.Sprintf("%d callers, all in %v", len(callers), w.allowed))
		}
	}
	// direct use of the os package's mutators
	muts := map[string]bool{"Create": true, "Remove": true, "RemoveAll": true, "MkdirAll": true, "Mkdir": true, "OpenFile": true, "WriteFile": true,
		"Rename": true, "Truncate": true, "CreateTemp": true, "MkdirTemp": true, "Link": true, "Symlink": true}
	var keys []string
	for k := range p.Funcs {
		keys = append(keys, k)
	}
	sort.Strings(keys)
	n := 0
	for _, k := range keys {
		fi := p.Funcs[k]
		if fi.Decl.Body == nil {
			continue
		}
		pk := shortPath(fi.Pkg.PkgPath)
		if pk == "internal/utils/os" || strings.HasPrefix(pk, "cmd/") {
			continue
		}
		ast.Inspect(fi.Decl.Body, func(x ast.Node) bool {
			if sel, ok := x.(*ast.SelectorExpr); ok {
				if fn, ok := fi.Pkg.TypesInfo.Uses[sel.Sel].(*types.Func); ok && fn.Pkg() != nil && fn.Pkg().Path() == "os" && muts[fn.Name()] {
					n++
					r.Viol(rule, "direct-os-mutator "+k, p.pos(sel), fmt.Sprintf("%s uses os.%s directly: persistent state is touched outside the repositories / the utils/os shim", k, fn.Name()))
				}
			}
			return true
		})
	}
	if n == 0 {
		r.Hold(rule, "direct-os-mutators", "", "none outside internal/utils/os")
	}
	r.Analysed["who_may_rules"] = len(rules)
}

func c04Recovery(p *Prog, r *Report, rule string) {
	fi := p.Func(kCoreLoad)
	if fi == nil {
		r.Undecided(rule, kCoreLoad, "", "core.Load not found")
		return
	}
	info := fi.Pkg.TypesInfo
	loops := rangeLoops(fi.Decl.Body)
	// the list returned on success
	f := p.FlatOf(fi)
	var delObj types.Object
	for _, id := range f.successReturns(fi) {
		if rs := f.returnStmt(id); rs != nil && len(rs.Results) == 2 {
			delObj = objOf(info, rs.Results[0])
		}
	}
	if delObj == nil {
		// a list kept in a field of a local accumulator (returned as loaded.stale) is a list the rule does not
		// follow; a success return of nil / a literal certainly hands nothing to the cleaner
		for _, id := range f.successReturns(fi) {
			if rs := f.returnStmt(id); rs != nil && len(rs.Results) == 2 {
				if _, isSel := ast.Unparen(rs.Results[0]).(*ast.SelectorExpr); isSel {
					r.Undecided(rule, kCoreLoad+"#returns-delete-list", p.pos(rs), "Load returns a field of a local value as its delete list: the recovery rule is applied in a form this check does not follow")
					return
				}
			}
		}
		r.Viol(rule, kCoreLoad+"#returns-delete-list", p.pos(fi.Decl), "Load does not return a delete list variable on success")
		return
	}
	// first loop: over the records from GetAll; second: publication
	var recLoop, pubLoop *ast.RangeStmt
	var recordsObj types.Object
	for _, s := range f.CallSites(kFileGetAllRepo) {
		if as, ok := f.Nodes[s.Node].Ast.(*ast.AssignStmt); ok && len(as.Lhs) == 2 {
			recordsObj = objOf(info, as.Lhs[0])
		}
	}
	for _, l := range loops {
		if objOf(info, l.X) == recordsObj && recordsObj != nil {
			recLoop = l
		}
		calls := false
		ast.Inspect(l.Body, func(x ast.Node) bool {
			if c, ok := x.(*ast.CallExpr); ok && p.callIs(fi.Pkg, c, kStoreToTx) {
				calls = true
			}
			return true
		})
		if calls {
			pubLoop = l
		}
	}
	// the recovery rule may sit in a helper that sorts the records: kept, dropped[, maxSeq] := split(records)
	var pubRange types.Object // what the publication loop ranges over, in the scope the record loop lives in
	if pubLoop != nil {
		pubRange = objOf(info, pubLoop.X)
	}
	if recLoop == nil && pubLoop != nil {
		if sp := c04SplitHelper(p, fi, recordsObj); sp != nil {
			recLoop = sp.loop
			if o, ok := sp.results[delObj]; ok {
				delObj = o
			} else {
				r.Undecided(rule, kCoreLoad+"#returns-delete-list", p.pos(sp.call), "the delete list Load returns is not a result of "+sp.h.Key)
				return
			}
			if o, ok := sp.results[pubRange]; ok {
				pubRange = o
			}
		}
	}
	if recLoop == nil || pubLoop == nil {
		r.Undecided(rule, kCoreLoad, p.pos(fi.Decl), "record loop / publication loop not identified")
		return
	}
	fileObj := objOf(info, recLoop.Value)
	// kept map: the map indexed by file.Key and assigned in the loop
	var keptObj types.Object
	ast.Inspect(recLoop.Body, func(x ast.Node) bool {
		if as, ok := x.(*ast.AssignStmt); ok {
			for _, l := range as.Lhs {
				if ix, ok := l.(*ast.IndexExpr); ok {
					keptObj = objOf(info, ix.X)
				}
			}
		}
		return true
	})
	// the loop may go over the records by index (for i := range files { file := &files[i] ... }) and keep positions
	// instead of copies (map[string]int): the record of the iteration is then files[i]
	idxObj := types.Object(nil)
	if fileObj == nil && recLoop.Key != nil {
		idxObj = objOf(info, recLoop.Key)
	}
	loopColl := objOf(info, recLoop.X)
	if keptObj == nil || (fileObj == nil && idxObj == nil) {
		r.Undecided(rule, kCoreLoad, p.pos(recLoop), "kept-records map not identified")
		return
	}
	keptIsIndex := false
	if mt, ok := keptObj.Type().Underlying().(*types.Map); ok {
		if bt, ok := mt.Elem().Underlying().(*types.Basic); ok && bt.Info()&types.IsInteger != 0 {
			keptIsIndex = true
		}
	}
	r.Check(pubRange == keptObj, rule, kCoreLoad+"#publishes-kept-only", p.pos(pubLoop), "publication loop ranges over the kept records",
		"the publication loop does not range over the records kept by the recovery rule")
	// publication argument is the loop variable
	pubOK := false
	ast.Inspect(pubLoop.Body, func(x ast.Node) bool {
		if c, ok := x.(*ast.CallExpr); ok && p.callIs(fi.Pkg, c, kStoreToTx) && len(c.Args) == 2 {
			if objOf(info, c.Args[1]) == objOf(info, pubLoop.Value) {
				pubOK = true
			}
			// the kept position: storeToTx(mainTx, files[i]) with i the value of the loop over the kept positions
			if ix, isIx := ast.Unparen(c.Args[1]).(*ast.IndexExpr); isIx && keptIsIndex && objOf(info, ix.Index) == objOf(info, pubLoop.Value) {
				pubOK = true
			}
		}
		return true
	})
	r.Check(pubOK, rule, kCoreLoad+"#publishes-loop-value", p.pos(pubLoop), "storeToTx receives the kept record", "storeToTx does not receive the kept record of the iteration")
	// records published outside the publication loop?
	for _, n := range f.CallNodes(kStoreToTx) {
		a := f.Nodes[n].Ast
		if a.Pos() < pubLoop.Body.Pos() || a.End() > pubLoop.Body.End() {
			r.Viol(rule, kCoreLoad+"#publishes-kept-only", p.pos(a), "a record is published outside the loop over the kept records")
		}
	}
	// abstract evaluation of the loop body
	body := p.NewFlat(fi.Pkg, recLoop.Body)
	// the two-value map lookup: prev, ok := kept[file.Key]
	var prevObj, okObj types.Object
	ast.Inspect(recLoop.Body, func(x ast.Node) bool {
		if as, ok := x.(*ast.AssignStmt); ok && len(as.Lhs) == 2 && len(as.Rhs) == 1 {
			if ix, ok := as.Rhs[0].(*ast.IndexExpr); ok && objOf(info, ix.X) == keptObj {
				prevObj, okObj = objOf(info, as.Lhs[0]), objOf(info, as.Lhs[1])
			}
		}
		return true
	})
	mainKey := "internal/model.MainTxId"
	type rcase struct {
		name     string
		main     bool
		hasPrev  bool
		seq      int64 // of the incoming record
		prevSeq  int64
		wantKeep bool   // incoming becomes the kept record
		wantDel  string // which record must be appended to the delete list: "file", "prev", ""
		dontCare bool
	}
	cases := []rcase{
		{"non-main record", false, false, 5, 0, false, "file", false},
		{"non-main record while a main one is kept", false, true, 9, 5, false, "file", false},
		{"first main record of the key", true, false, 5, 0, true, "", false},
		{"main record older than the kept one", true, true, 3, 5, false, "file", false},
		{"main record newer than the kept one", true, true, 7, 5, true, "prev", false},
		{"tie", true, true, 5, 5, false, "", true},
	}
	var rows []map[string]any
	for _, c := range cases {
		tx := "11111111-1111-1111-1111-111111111111"
		if c.main {
			if v, ok := constValOfKeyStr(p, mainKey); ok {
				tx = v
			}
		}
		fileVal := &Val{Tag: "", Fields: map[string]*Val{"TxId": strVal(tx), "Seq": intVal(c.seq), "Key": strVal("k"), "ContentId": strVal("c")}}
		prevVal := &Val{Fields: map[string]*Val{"TxId": strVal(tx), "Seq": intVal(c.prevSeq), "Key": strVal("k"), "ContentId": strVal("p")}}
		if !c.hasPrev {
			prevVal.Fields["Seq"] = intVal(0)
		}
		fileVal.Tag, prevVal.Tag = "file", "prev"
		env := &Env{P: p, Pkg: fi.Pkg, Vars: map[types.Object]*Val{}, Body: nil}
		semKept := false
		var semDels []string
		tagOf := func(v *Val) string {
			for v != nil && v.Ptr != nil {
				v = v.Ptr
			}
			if v == nil {
				return "?"
			}
			switch v.Tag {
			case "file", "prev":
				return v.Tag
			case "i":
				return "file"
			case "prev-index":
				return "prev"
			}
			return "?"
		}
		env.MapOk = func(env *Env, ix *ast.IndexExpr) (*Val, bool, bool) {
			if objOf(info, ix.X) != keptObj {
				return nil, false, false
			}
			if keptIsIndex {
				return &Val{Tag: "prev-index"}, c.hasPrev, true
			}
			return prevVal, c.hasPrev, true
		}
		env.MapStore = func(env *Env, ix *ast.IndexExpr, v *Val) bool {
			if objOf(info, ix.X) != keptObj {
				return false
			}
			if tagOf(v) == "file" {
				semKept = true
			}
			return true
		}
		env.Hook = func(env *Env, e ast.Expr) (*Val, bool) {
			if id, ok := e.(*ast.Ident); ok && env.Pkg == fi.Pkg && idxObj != nil && objOf(info, id) == idxObj {
				return &Val{Tag: "i"}, true
			}
			if ix, ok := e.(*ast.IndexExpr); ok && env.Pkg == fi.Pkg && loopColl != nil && objOf(info, ix.X) == loopColl {
				if iv, err := env.Eval(ix.Index); err == nil && iv != nil {
					switch iv.Tag {
					case "i":
						return fileVal, true
					case "prev-index":
						return prevVal, true
					}
				}
			}
			if c2, ok := e.(*ast.CallExpr); ok && env.Pkg == fi.Pkg {
				if id, isId := c2.Fun.(*ast.Ident); isId && id.Name == "append" && len(c2.Args) >= 2 && objOf(info, c2.Args[0]) == delObj {
					for _, a := range c2.Args[1:] {
						if v, err := env.Eval(a); err == nil {
							semDels = append(semDels, tagOf(v))
						} else {
							semDels = append(semDels, types.ExprString(a))
						}
					}
					return &Val{Tag: "list"}, true
				}
			}
			if id, ok := e.(*ast.Ident); ok && env.Pkg == fi.Pkg {
				switch objOf(info, id) {
				case fileObj:
					if fileObj == nil {
						break
					}
					return fileVal, true
				case prevObj:
					if prevObj != nil {
						if keptIsIndex {
							return &Val{Tag: "prev-index"}, true
						}
						return prevVal, true
					}
				case okObj:
					if okObj != nil {
						return boolVal(c.hasPrev), true
					}
				}
			}
			if ix, ok := e.(*ast.IndexExpr); ok && env.Pkg == fi.Pkg && objOf(info, ix.X) == keptObj {
				return prevVal, true
			}
			return nil, false
		}
		visited, _, err := body.WalkPath(env)
		cons := kCoreLoad + "#recovery/" + c.name
		if err != nil {
			r.Undecided(rule, cons, p.pos(recLoop), err.Error())
			continue
		}
		kept := false
		var dels []string
		for _, id := range visited {
			as, ok := body.Nodes[id].Ast.(*ast.AssignStmt)
			if !ok {
				continue
			}
			for i, l := range as.Lhs {
				if ix, ok := l.(*ast.IndexExpr); ok && objOf(info, ix.X) == keptObj && i < len(as.Rhs) && objOf(info, as.Rhs[i]) == fileObj {
					kept = true
				}
				if objOf(info, l) == delObj && i < len(as.Rhs) {
					if ac, ok := ast.Unparen(as.Rhs[i]).(*ast.CallExpr); ok && len(ac.Args) >= 2 {
						for _, a := range ac.Args[1:] {
							switch objOf(info, a) {
							case fileObj:
								dels = append(dels, "file")
							case prevObj:
								dels = append(dels, "prev")
							default:
								dels = append(dels, types.ExprString(a))
							}
						}
					}
				}
			}
		}
		// what the evaluation itself saw (records named by position, kept positions instead of copies)
		if semKept {
			kept = true
		}
		if fileObj == nil || keptIsIndex {
			dels = semDels
		} else if len(semDels) > 0 && (len(dels) == 0 || strings.Contains(strings.Join(dels, ","), "[") || strings.Contains(strings.Join(dels, ","), "*")) {
			dels = semDels
		}
		rows = append(rows, map[string]any{"case": c.name, "kept": kept, "deleted": dels})
		if c.dontCare {
			r.Hold(rule, cons, p.pos(recLoop), fmt.Sprintf("don't-care row (sequence numbers are unique): kept=%v deleted=%v", kept, dels))
			continue
		}
		want := []string{}
		if c.wantDel != "" {
			want = []string{c.wantDel}
		}
		ok := kept == c.wantKeep && strings.Join(dels, ",") == strings.Join(want, ",")
		r.Check(ok, rule, cons, p.pos(recLoop), fmt.Sprintf("kept=%v deleted=%v", kept, dels),
			fmt.Sprintf("recovery handles '%s' as kept=%v deleted=%v; required kept=%v deleted=%v", c.name, kept, dels, c.wantKeep, want))
	}
	r.Tables["recovery_table"] = rows
}

func constValOfKeyStr(p *Prog, key string) (string, bool) {
	i := strings.LastIndex(key, ".")
	pkg := p.Pkg(key[:i])
	if pkg == nil {
		return "", false
	}
	c, ok := pkg.Types.Scope().Lookup(key[i+1:]).(*types.Const)
	if !ok {
		return "", false
	}
	s := c.Val().ExactString()
	if len(s) >= 2 && s[0] == '"' {
		s = s[1 : len(s)-1]
	}
	return s, true
}

// splitHelper describes `a, b, c := h(records)` in Load where h (a function of the package) holds the loop over
// the records: results maps Load's variables to the variables h returns in the same positions.
type splitHelper struct {
	h       *FuncInfo
	call    *ast.CallExpr
	loop    *ast.RangeStmt
	results map[types.Object]types.Object
}

func c04SplitHelper(p *Prog, fi *FuncInfo, recordsObj types.Object) *splitHelper {
	if recordsObj == nil {
		return nil
	}
	info := fi.Pkg.TypesInfo
	var res *splitHelper
	ast.Inspect(fi.Decl.Body, func(x ast.Node) bool {
		as, ok := x.(*ast.AssignStmt)
		if !ok || len(as.Rhs) != 1 || res != nil {
			return true
		}
		c, ok := ast.Unparen(as.Rhs[0]).(*ast.CallExpr)
		if !ok {
			return true
		}
		h := p.staticCallee(fi.Pkg, c)
		if h == nil || h.Pkg != fi.Pkg {
			return true
		}
		// the parameter that receives the records
		var recParam types.Object
		args := argExprs(c, h)
		for i, po := range paramObjs(h) {
			if po != nil && i >= 0 && args[i] != nil && objOf(info, args[i]) == recordsObj {
				recParam = po
			}
		}
		if recParam == nil {
			return true
		}
		var loop *ast.RangeStmt
		for _, l := range rangeLoops(h.Decl.Body) {
			if objOf(info, l.X) == recParam {
				loop = l
			}
		}
		if loop == nil {
			return true
		}
		// result variables by position: named results, or the identifiers every return statement returns
		sig := h.Sig()
		pos := make([]types.Object, sig.Results().Len())
		if h.Decl.Type.Results != nil {
			i := 0
			for _, fld := range h.Decl.Type.Results.List {
				for _, nm := range fld.Names {
					if i < len(pos) {
						pos[i] = info.Defs[nm]
					}
					i++
				}
			}
		}
		walkNoLit(h.Decl.Body, func(y ast.Node) bool {
			if rs, ok := y.(*ast.ReturnStmt); ok && len(rs.Results) == len(pos) {
				for i, e := range rs.Results {
					if o := objOf(info, e); o != nil {
						if _, isVar := o.(*types.Var); isVar && (pos[i] == nil || pos[i] == o) {
							pos[i] = o
						}
					}
				}
			}
			return true
		})
		m := map[types.Object]types.Object{}
		for i, l := range as.Lhs {
			if i < len(pos) && pos[i] != nil {
				if lo := objOf(info, l); lo != nil {
					m[lo] = pos[i]
				}
			}
		}
		res = &splitHelper{h: h, call: c, loop: loop, results: m}
		return true
	})
	return res
}
