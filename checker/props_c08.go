package main

// C08 Snapshot transactions see one consistent, stable snapshot under concurrency.

import (
	"fmt"
	"go/ast"
	"sort"
	"strings"
)

func init() { register("C08", propC08) }

const (
	kCleanerDeleteOld = "(*internal/usecase/cleaner.UseCase).DeleteOld"
)

// sequence roles, frozen per enclosing function (+ whether the draw sits in the RunTransaction literal)
var seqRoles = map[string]string{
	kCoreStore:                 "VERSION_STAMP",
	kUpdateTx:                  "PROVISIONAL", // loop over the transaction's files; overwritten before the write
	kUpdateTx + "$lit":         "COMMIT_STAMP",
	kTxBegin:                   "SNAPSHOT_POINT",
	kCleanerDeleteOld:          "GC_HORIZON",
	"cmd/migrate.migrateFiles": "OFFLINE",
}

type seqSite struct {
	fn     *FuncInfo
	call   *ast.CallExpr
	inLit  bool
	inLoop bool
	role   string
	pos    string
}

func seqNextSites(p *Prog) []seqSite {
	var res []seqSite
	for _, k := range sortedFuncKeys(p) {
		fi := p.Funcs[k]
		if fi.Decl.Body == nil {
			continue
		}
		var lits []*ast.FuncLit
		ast.Inspect(fi.Decl.Body, func(x ast.Node) bool {
			if l, ok := x.(*ast.FuncLit); ok {
				lits = append(lits, l)
			}
			return true
		})
		ast.Inspect(fi.Decl.Body, func(x ast.Node) bool {
			c, ok := x.(*ast.CallExpr)
			if !ok || !p.callIs(fi.Pkg, c, kSeqNext) {
				return true
			}
			s := seqSite{fn: fi, call: c, pos: p.pos(c)}
			for _, l := range lits {
				if c.Pos() >= l.Body.Pos() && c.End() <= l.Body.End() {
					s.inLit = true
				}
			}
			s.inLoop = insideLoop(fi.Decl.Body, c)
			key := k
			if k == kUpdateTx {
				// COMMIT_STAMP = the draw whose value is stored into a version's Seq inside the RunTransaction literal
				if commitStampDraws(p, fi)[c] {
					key += "$lit"
				}
			} else if s.inLit {
				key += "$lit"
			}
			s.role = seqRoles[key]
			res = append(res, s)
			return true
		})
	}
	return res
}

func propC08(p *Prog, r *Report) {
	r.Rule("C08.a", "commit batch stamped under the main write lock: the sequence draws inside the RunTransaction literal of UpdateTx (the draws whose value is stored into a version inside the RunTransaction literal) execute with W(destination store) held; held-on-entry of the literal = held at the unique synchronous RunTransaction call")
	r.Rule("C08.b", "snapshot reads take the store's read lock: the guarded-by obligations of getFileFromTx / getFilesFromTx (instances of C06.c)")
	r.Rule("C08.c", "sequence-role exclusion: all call sites of sequence.Next are enumerated and classified (VERSION_STAMP, PROVISIONAL, COMMIT_STAMP, SNAPSHOT_POINT, GC_HORIZON, OFFLINE; an unclassified site is undecided). S1: the snapshot draw of Begin is excluded from a commit batch by a lock class that is write-held across the whole batch, or the batch draws a single stamp. S2: {snapshot draw + registry Store} and {registry Oldest + fallback horizon draw} execute under a common lock class (the collection itself may follow outside: any later snapshot point exceeds the horizon)")
	r.Rule("C08.d", "retention guard of the collector = C09.a")
	r.NotDecided = []string{"what concrete snapshot reads return", "schedules"}
	r.Assume = []string{"sequence.Next is an atomic counter: unique, increasing values"}

	// C08.a
	fi := p.Func(kUpdateTx)
	if fi == nil {
		r.Undecided("C08.a", kUpdateTx, "", "core.UpdateTx not found")
	} else {
		lr := p.LockFlow(fi, nil)
		dest := c03DestStore(p, fi)
		n := 0
		stamps := commitStampDraws(p, fi)
		seenCall := map[*ast.CallExpr]bool{}
		for _, ev := range lr.eventsCalling(kSeqNext) {
			if !stamps[ev.Call] || seenCall[ev.Call] {
				continue
			}
			seenCall[ev.Call] = true
			n++
			hs, _ := mustHeldAny(lr, ev.Call)
			okAll := dest != nil && holdsMode(hs, dest.Name()+".m", "W")
			r.Check(okAll, "C08.a", kUpdateTx+"#commit-stamps-under-main-write-lock", p.pos(ev.Call), "commit stamps drawn under "+heldString(hs),
				"the commit's sequence number is drawn without the destination store's write lock (held "+heldString(hs)+"): a snapshot reader holding the read lock can see part of the batch")
		}
		if n == 0 {
			r.Viol("C08.a", kUpdateTx+"#commit-stamps-under-main-write-lock", p.pos(fi.Decl), "no sequence draw inside the commit batch: the committed versions keep their provisional numbers, drawn before the locks were taken")
		}
	}
	// C08.b
	nb := 0
	if p.Func(kGetFileFromTx) == nil || p.Func(kGetFilesFromTx) == nil {
		r.Undecided("C08.b", "core.getFile(s)FromTx", "", "snapshot readers not found")
	}
	for _, gf := range localClosure(p, kGetFileFromTx, kGetFilesFromTx) {
		k := gf.Key
		lr := p.LockFlow(gf, entryHeldFor(p, gf))
		ops := guardedOps()
		done := map[*ast.CallExpr]bool{}
		idx := 0
		for _, ev := range lr.Events {
			if ev.Kind != "call" || done[ev.Call] {
				continue
			}
			for _, op := range ops {
				m := false
				for _, kk := range ev.Keys {
					for _, w := range op.Keys {
						if kk == w {
							m = true
						}
					}
				}
				if !m {
					continue
				}
				done[ev.Call] = true
				idx++
				nb++
				hs, _ := mustHeldAny(lr, ev.Call)
				ok := true
				for _, lp := range op.Locks(p, gf, ev.Call) {
					if !holdsMode(hs, lp, op.Mode) {
						ok = false
					}
				}
				r.Check(ok, "C08.b", fmt.Sprintf("%s#read/%d", k, idx), p.pos(ev.Call), "under "+heldString(hs), "a snapshot read touches the store without its read lock: it can observe a commit batch half published")
			}
		}
	}
	r.Floor("C08.b", "snapshot-read-sites", nb, 6)
	// C08.c
	c03StampReachesPublished(p, r, "C08.a")
	sites := seqNextSites(p)
	r.Floor("C08.c", "sequence.Next-call-sites", len(sites), 5)
	var table []map[string]any
	var begin, commit, gc []seqSite
	for _, s := range sites {
		key := s.fn.Key
		if s.inLit {
			key += "$lit"
		}
		table = append(table, map[string]any{"site": key, "pos": s.pos, "role": s.role, "in_loop": s.inLoop})
		if s.role == "" {
			r.Undecided("C08.c", "seq-role/"+key, s.pos, "a new call site of sequence.Next is not classified: its role decides which exclusion it needs")
			continue
		}
		r.Hold("C08.c", "seq-role/"+key, s.pos, s.role)
		switch s.role {
		case "SNAPSHOT_POINT":
			begin = append(begin, s)
		case "COMMIT_STAMP":
			commit = append(commit, s)
		case "GC_HORIZON":
			gc = append(gc, s)
		}
	}
	sort.Slice(table, func(i, j int) bool { return table[i]["site"].(string) < table[j]["site"].(string) })
	r.Tables["sequence_sites"] = table
	// S1
	for _, b := range begin {
		lr := p.LockFlow(b.fn, nil)
		hs, _ := mustHeldAny(lr, b.call)
		// write-held classes across the batch
		batchClasses := map[string]bool{}
		single := len(commit) > 0
		for _, c := range commit {
			clr := p.LockFlow(c.fn, nil)
			chs, _ := mustHeldAny(clr, c.call)
			for _, h := range chs {
				if h.Mode == "W" {
					batchClasses[h.Class+"|"+storeRole(p, c.fn, h.Path)] = true
				}
			}
			if c.inLoop {
				single = false
			}
		}
		common := false
		for _, h := range hs {
			if batchClasses[h.Class+"|"+storeRole(p, b.fn, h.Path)] {
				common = true
			}
		}
		cons := "seq-exclusion/" + strings.TrimPrefix(b.fn.Key, "(*internal/usecase/") + "#S1"
		cons = "seq-exclusion/transaction.Begin#S1"
		r.Check(common || single, "C08.c", cons, b.pos, "snapshot draw excluded from commit batches",
			fmt.Sprintf("Begin draws its snapshot point holding %s while a commit stamps its versions one by one under %v: the point can fall between two stamps of one commit and the transaction sees part of it", heldString(hs), keysOf(batchClasses)))
	}
	// S2
	for _, g := range gc {
		glr := p.LockFlow(g.fn, nil)
		ghs := regionHeld(p, glr, g.fn, []string{kTxRepoOldest, kSeqNext})
		var bhs []Held
		for _, b := range begin {
			blr := p.LockFlow(b.fn, nil)
			bhs = regionHeld(p, blr, b.fn, []string{kSeqNext, kTxRepoStore})
		}
		common := false
		for _, a := range ghs {
			for _, b := range bhs {
				if a.Class == b.Class {
					common = true
				}
			}
		}
		cons := "seq-exclusion/cleaner.DeleteOld#S2"
		r.Check(common, "C08.c", cons, g.pos, "horizon computation and draw-and-register share a lock class",
			fmt.Sprintf("the collector computes its horizon (Oldest / fresh draw) under %s and Begin draws and registers under %s: no common lock, so the horizon can be newer than a transaction that has drawn its point but is not registered yet, and the version it must read is removed", heldString(ghs), heldString(bhs)))
	}
	if len(begin) == 0 || len(gc) == 0 {
		r.Undecided("C08.c", "seq-exclusion", "", "snapshot-point or horizon draw not found")
	}
}

func keysOf(m map[string]bool) []string {
	var ks []string
	for k := range m {
		ks = append(ks, k)
	}
	sort.Strings(ks)
	return ks
}

// regionHeld intersects the locksets held at all calls of the given keys in the function.
func regionHeld(p *Prog, lr *LockResult, fi *FuncInfo, keys []string) []Held {
	var inter []Held
	first := true
	for _, ev := range lr.eventsCalling(keys...) {
		if first {
			inter = append([]Held{}, ev.Held...)
			first = false
			continue
		}
		var keep []Held
		for _, h := range inter {
			for _, g := range ev.Held {
				if g.Path == h.Path {
					keep = append(keep, h)
				}
			}
		}
		inter = keep
	}
	return inter
}

// commitStampDraws returns the sequence.Next calls of UpdateTx whose value is assigned to a .Seq field
// inside the function literal passed to RunTransaction (directly or through a single-definition local).
func commitStampDraws(p *Prog, fi *FuncInfo) map[*ast.CallExpr]bool {
	res := map[*ast.CallExpr]bool{}
	info := fi.Pkg.TypesInfo
	ast.Inspect(fi.Decl.Body, func(x ast.Node) bool {
		c, ok := x.(*ast.CallExpr)
		if !ok || !p.callIs(fi.Pkg, c, kRepoRunTx) {
			return true
		}
		for _, a := range c.Args {
			lit, ok := ast.Unparen(a).(*ast.FuncLit)
			if !ok {
				continue
			}
			ast.Inspect(lit.Body, func(y ast.Node) bool {
				as, ok := y.(*ast.AssignStmt)
				if !ok || len(as.Lhs) != len(as.Rhs) {
					return true
				}
				for i, l := range as.Lhs {
					sel, ok := l.(*ast.SelectorExpr)
					if !ok || sel.Sel.Name != "Seq" {
						continue
					}
					rhs := ast.Unparen(as.Rhs[i])
					if o := objOf(info, rhs); o != nil {
						if d := singleDef(info, fi.Decl.Body, o); d != nil {
							rhs = ast.Unparen(d)
						}
					}
					if dc, ok := rhs.(*ast.CallExpr); ok && p.callIs(fi.Pkg, dc, kSeqNext) {
						res[dc] = true
					}
				}
				return true
			})
		}
		return true
	})
	return res
}
