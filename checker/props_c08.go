package main

// C08 Snapshot transactions see one consistent, stable snapshot under concurrency.

import (
	"fmt"
	"go/ast"
	"go/token"
	"go/types"
	"sort"
	"strings"
)

func init() { register("C08", propC08) }

const (
	kCleanerDeleteOld = "(*internal/usecase/cleaner.UseCase).DeleteOld"
)

// sequence roles by entry point: a draw belongs to the entry point on whose stack it executes, whether it is
// written in the entry point itself or in a same-package helper it calls. Inside UpdateTx the draws whose value
// is stamped into a version within the RunTransaction callback are COMMIT_STAMP, the others PROVISIONAL.
var seqRoles = map[string]string{
	kCoreStore:                 "VERSION_STAMP",
	kUpdateTx:                  "PROVISIONAL", // loop over the transaction's files; overwritten before the write
	kUpdateTx + "$lit":         "COMMIT_STAMP",
	kTxBegin:                   "SNAPSHOT_POINT",
	kCleanerDeleteOld:          "GC_HORIZON",
	"cmd/migrate.migrateFiles": "OFFLINE",
}

type seqSite struct {
	root   *FuncInfo // entry point
	fn     *FuncInfo // function whose body contains the call
	call   *ast.CallExpr
	inLit  bool
	inLoop bool
	role   string
	pos    string
	held   []Held // locks certainly held at the draw (entry point's locks included)
	evs    []*LockEvent
}

// seqRootEvents returns the lock events of an entry point and of the helpers running on its stack.
func seqRootEvents(p *Prog, root *FuncInfo) []*LockEvent {
	return p.DeepLockEvents(root, nil, 3)
}

func heldAtAll(evs []*LockEvent, c *ast.CallExpr) []Held {
	var inter []Held
	n := 0
	for _, e := range evs {
		if e.Call != c || e.Kind != "call" {
			continue
		}
		if n == 0 {
			inter = append([]Held{}, e.Held...)
		} else {
			var keep []Held
			for _, h := range inter {
				for _, g := range e.Held {
					if g.Path == h.Path {
						if g.Mode == "R" {
							h.Mode = "R"
						}
						keep = append(keep, h)
					}
				}
			}
			inter = keep
		}
		n++
	}
	return inter
}

func seqNextSites(p *Prog) []seqSite {
	var res []seqSite
	attributed := map[*ast.CallExpr]bool{}
	var roots []string
	for k := range seqRoles {
		if !strings.HasSuffix(k, "$lit") {
			roots = append(roots, k)
		}
	}
	sort.Strings(roots)
	for _, k := range roots {
		root := p.Funcs[k]
		if root == nil || root.Decl.Body == nil {
			continue
		}
		evs := seqRootEvents(p, root)
		var stamps map[*ast.CallExpr]bool
		var cbLoop map[*ast.CallExpr]bool
		if k == kUpdateTx {
			stamps, cbLoop = commitStampDraws(p, root)
		}
		seen := map[*ast.CallExpr]bool{}
		for _, ev := range evs {
			if ev.Kind != "call" || ev.Call == nil || seen[ev.Call] {
				continue
			}
			is := false
			for _, kk := range ev.Keys {
				if kk == kSeqNext {
					is = true
				}
			}
			if !is {
				continue
			}
			seen[ev.Call] = true
			attributed[ev.Call] = true
			s := seqSite{root: root, fn: ev.Fn, call: ev.Call, pos: p.pos(ev.Call), inLit: ev.InLit != nil, evs: evs}
			s.held = heldAtAll(evs, ev.Call)
			s.inLoop = insideLoop(ev.Fn.Decl.Body, ev.Call)
			key := k
			if k == kUpdateTx {
				if stamps[ev.Call] {
					key += "$lit"
					s.inLoop = cbLoop[ev.Call]
				}
			} else if s.inLit && ev.Fn == root {
				key += "$lit"
			}
			s.role = seqRoles[key]
			res = append(res, s)
		}
	}
	// draws that run on no known entry point's stack
	for _, k := range sortedFuncKeys(p) {
		fi := p.Funcs[k]
		if fi.Decl.Body == nil {
			continue
		}
		ast.Inspect(fi.Decl.Body, func(x ast.Node) bool {
			c, ok := x.(*ast.CallExpr)
			if !ok || !p.callIs(fi.Pkg, c, kSeqNext) || attributed[c] {
				return true
			}
			if fw := p.forwardsTo(fi.Key, 0); len(fw) > 0 && fw[len(fw)-1] == kSeqNext {
				return true // a pure forwarder of the counter: the calls of the forwarder are the sites
			}
			res = append(res, seqSite{root: fi, fn: fi, call: c, pos: p.pos(c), inLoop: insideLoop(fi.Decl.Body, c)})
			return true
		})
	}
	return res
}

func propC08(p *Prog, r *Report) {
	r.Rule("C08.a", "commit batch stamped under the main write lock: the sequence draws inside the RunTransaction literal of UpdateTx (the draws whose value is stored into a version inside the RunTransaction literal) execute with W(destination store) held; held-on-entry of the literal = held at the unique synchronous RunTransaction call")
	r.Rule("C08.b", "snapshot reads take the store's read lock: the guarded-by obligations of getFileFromTx / getFilesFromTx (instances of C06.c)")
	r.Rule("C08.c", "sequence-role exclusion: all call sites of sequence.Next are enumerated and classified (VERSION_STAMP, PROVISIONAL, COMMIT_STAMP, SNAPSHOT_POINT, GC_HORIZON, OFFLINE; an unclassified site is undecided). S1: the snapshot draw of Begin is excluded from a commit batch by a lock class that is write-held across the whole batch, or the batch draws a single stamp. S2: {snapshot draw + registry Store} and {registry Oldest + fallback horizon draw} execute under a common lock class (the collection itself may follow outside: any later snapshot point exceeds the horizon)")
	r.Rule("C08.d", "retention guard of the collector = C09.a")
	r.NotDecided = []string{"what concrete snapshot reads return", "schedules"}
	r.Assume = []string{"sequence.Next is an atomic counter: unique, increasing values"}

	// C08.a
	fi := p.Func(kUpdateTx)
	if fi == nil {
		r.Undecided("C08.a", kUpdateTx, "", "core.UpdateTx not found")
	} else {
		evs := seqRootEvents(p, fi)
		dest := c03DestStore(p, fi)
		n := 0
		stamps, _ := commitStampDraws(p, fi)
		seenCall := map[*ast.CallExpr]bool{}
		for _, ev := range evs {
			if ev.Kind != "call" || !stamps[ev.Call] || seenCall[ev.Call] {
				continue
			}
			seenCall[ev.Call] = true
			n++
			hs := heldAtAll(evs, ev.Call)
			okAll := dest != nil && holdsMode(hs, dest.Name()+".m", "W")
			r.Check(okAll, "C08.a", kUpdateTx+"#commit-stamps-under-main-write-lock", p.pos(ev.Call), "commit stamps drawn under "+heldString(hs),
				"the commit's sequence number is drawn without the destination store's write lock (held "+heldString(hs)+"): a snapshot reader holding the read lock can see part of the batch")
		}
		if n == 0 {
			r.Viol("C08.a", kUpdateTx+"#commit-stamps-under-main-write-lock", p.pos(fi.Decl), "no sequence draw inside the commit batch: the committed versions keep their provisional numbers, drawn before the locks were taken")
		}
	}
	// C08.b
	nb := 0
	readers := snapshotReaders(p)
	if len(readers) < 2 {
		r.Undecided("C08.b", "core per-store readers", "", "snapshot readers (functions given a store and a snapshot point that select with Latest / LastBefore) not found")
	}
	for _, gf := range localClosure(p, readers...) {
		k := gf.Key
		lr := p.LockFlow(gf, entryHeldFor(p, gf))
		ops := guardedOps()
		done := map[*ast.CallExpr]bool{}
		idx := 0
		for _, ev := range lr.Events {
			if ev.Kind != "call" || done[ev.Call] {
				continue
			}
			for _, op := range ops {
				m := false
				for _, kk := range ev.Keys {
					for _, w := range op.Keys {
						if kk == w {
							m = true
						}
					}
				}
				if !m {
					continue
				}
				done[ev.Call] = true
				idx++
				nb++
				hs, _ := mustHeldAny(lr, ev.Call)
				ok := true
				for _, lp := range op.Locks(p, gf, ev.Call) {
					if !heldHereOrAtCallers(p, gf, hs, lp, op.Mode) {
						ok = false
					}
				}
				r.Check(ok, "C08.b", fmt.Sprintf("%s#read/%d", k, idx), p.pos(ev.Call), "under "+heldString(hs), "a snapshot read touches the store without its read lock: it can observe a commit batch half published")
			}
		}
	}
	r.Floor("C08.b", "snapshot-read-sites", nb, 4)
	// C08.c
	c03StampReachesPublished(p, r, "C08.a")
	sites := seqNextSites(p)
	r.Floor("C08.c", "sequence.Next-call-sites", len(sites), 5)
	var table []map[string]any
	var begin, commit, gc []seqSite
	for _, s := range sites {
		key := s.fn.Key
		if s.inLit {
			key += "$lit"
		}
		if s.root != s.fn {
			key = s.root.Key + " via " + key
		}
		table = append(table, map[string]any{"site": key, "pos": s.pos, "role": s.role, "in_loop": s.inLoop})
		if s.role == "" && strings.HasPrefix(shortPath(s.fn.Pkg.PkgPath), "cmd/migrate") {
			s.role = "OFFLINE" // the migration tool runs on a database nobody else has open
		}
		if s.role == "" {
			r.Undecided("C08.c", "seq-role/"+key, s.pos, "a new call site of sequence.Next is not classified: its role decides which exclusion it needs")
			continue
		}
		r.Hold("C08.c", "seq-role/"+key, s.pos, s.role)
		switch s.role {
		case "SNAPSHOT_POINT":
			begin = append(begin, s)
		case "COMMIT_STAMP":
			commit = append(commit, s)
		case "GC_HORIZON":
			gc = append(gc, s)
		}
	}
	sort.Slice(table, func(i, j int) bool { return table[i]["site"].(string) < table[j]["site"].(string) })
	r.Tables["sequence_sites"] = table
	// S1
	for _, b := range begin {
		hs := b.held
		// write-held classes across the batch
		batchClasses := map[string]bool{}
		single := len(commit) > 0
		for _, c := range commit {
			for _, h := range c.held {
				if h.Mode == "W" {
					batchClasses[h.Class+"|"+storeRole(p, c.root, h.Path)] = true
				}
			}
			if c.inLoop {
				single = false
			}
		}
		common := false
		for _, h := range hs {
			if batchClasses[h.Class+"|"+storeRole(p, b.root, h.Path)] {
				common = true
			}
		}
		cons := "seq-exclusion/transaction.Begin#S1"
		r.Check(common || single, "C08.c", cons, b.pos, "snapshot draw excluded from commit batches",
			fmt.Sprintf("Begin draws its snapshot point holding %s while a commit stamps its versions one by one under %v: the point can fall between two stamps of one commit and the transaction sees part of it", heldString(hs), keysOf(batchClasses)))
	}
	// S2
	for _, g := range gc {
		ghs := regionHeld(g.evs, []string{kTxRepoOldest, kSeqNext})
		var bhs []Held
		for _, b := range begin {
			bhs = regionHeld(b.evs, []string{kSeqNext, kTxRepoStore})
		}
		common := false
		for _, a := range ghs {
			for _, b := range bhs {
				if a.Class == b.Class {
					common = true
				}
			}
		}
		cons := "seq-exclusion/cleaner.DeleteOld#S2"
		r.Check(common, "C08.c", cons, g.pos, "horizon computation and draw-and-register share a lock class",
			fmt.Sprintf("the collector computes its horizon (Oldest / fresh draw) under %s and Begin draws and registers under %s: no common lock, so the horizon can be newer than a transaction that has drawn its point but is not registered yet, and the version it must read is removed", heldString(ghs), heldString(bhs)))
	}
	// S3 (seeded C08-J): the registry answers Oldest with the first transaction registered, not with the smallest
	// point, so beginners must register in the order of their points: draw-and-register is exclusive among
	// beginners too (a lock held in write mode), not only against the collector.
	if old := p.Func(kTxRepoOldest); old != nil && old.Decl.Body != nil && !comparesSeq(old) {
		for _, b := range begin {
			bhs := regionHeld(b.evs, []string{kSeqNext, kTxRepoStore})
			excl := false
			for _, h := range bhs {
				if h.Mode == "W" {
					excl = true
				}
			}
			r.Check(excl, "C08.c", "seq-exclusion/transaction.Begin#S3", b.pos, "draw-and-register is exclusive among beginning transactions (registration order = point order, which is what Oldest relies on)",
				fmt.Sprintf("Begin draws its snapshot point and registers holding only %s: two beginning transactions can register in the opposite order of their points, the registry's Oldest answers with the first one registered, and the collector's horizon exceeds the point of a transaction that is open: the version it reads is removed", heldString(bhs)))
		}
	}
	if len(begin) == 0 || len(gc) == 0 {
		r.Undecided("C08.c", "seq-exclusion", "", "snapshot-point or horizon draw not found")
	}
}

func keysOf(m map[string]bool) []string {
	var ks []string
	for k := range m {
		ks = append(ks, k)
	}
	sort.Strings(ks)
	return ks
}

// regionHeld intersects the locksets held at all calls of the given keys among the events.
func regionHeld(evs []*LockEvent, keys []string) []Held {
	var inter []Held
	first := true
	for _, ev := range evs {
		if ev.Kind != "call" {
			continue
		}
		m := false
		for _, k := range ev.Keys {
			for _, w := range keys {
				if k == w {
					m = true
				}
			}
		}
		if !m {
			continue
		}
		if first {
			inter = append([]Held{}, ev.Held...)
			first = false
			continue
		}
		var keep []Held
		for _, h := range inter {
			for _, g := range ev.Held {
				if g.Class == h.Class {
					keep = append(keep, h)
					break
				}
			}
		}
		inter = keep
	}
	return inter
}

// commitStampDraws returns the sequence.Next calls whose value is assigned to a .Seq field inside the callback
// passed to RunTransaction (directly or through a single-definition local), following same-package helpers of
// the callback; the second result tells which of them sit on a cycle of the callback's flow graph (one draw
// per version instead of one per commit).
func commitStampDraws(p *Prog, fi *FuncInfo) (map[*ast.CallExpr]bool, map[*ast.CallExpr]bool) {
	res, loop := map[*ast.CallExpr]bool{}, map[*ast.CallExpr]bool{}
	info := fi.Pkg.TypesInfo
	outer := p.FlatInl(fi)
	for _, on := range outer.Nodes {
		if on.Ast == nil {
			continue
		}
		for _, c := range callsIn(on.Ast, false) {
			if !p.callIs(fi.Pkg, c, kRepoRunTx) {
				continue
			}
			cb := p.callbackOf(fi, c)
			if cb == nil {
				continue
			}
			cf := p.FlatInl(cb)
			// single definitions of locals inside the (inlined) callback
			defs := map[types.Object][]ast.Expr{}
			defNode := map[types.Object]int{}
			for _, gn := range cf.Nodes {
				if as, ok := gn.Ast.(*ast.AssignStmt); ok && len(as.Lhs) == len(as.Rhs) {
					for i, l := range as.Lhs {
						if o := objOf(info, l); o != nil {
							defs[o] = append(defs[o], as.Rhs[i])
							defNode[o] = gn.ID
						}
					}
				}
			}
			for _, gn := range cf.Nodes {
				as, ok := gn.Ast.(*ast.AssignStmt)
				if !ok || len(as.Lhs) != len(as.Rhs) {
					continue
				}
				for i, l := range as.Lhs {
					sel, ok := l.(*ast.SelectorExpr)
					if !ok || sel.Sel.Name != "Seq" {
						continue
					}
					rhs := ast.Unparen(as.Rhs[i])
					drawNode := gn.ID
					for hop := 0; hop < 4; hop++ {
						o := objOf(info, rhs)
						if o == nil {
							break
						}
						if d := defs[o]; len(d) == 1 {
							rhs = ast.Unparen(d[0])
							drawNode = defNode[o]
							continue
						}
						if d := singleDef(info, fi.Decl.Body, o); d != nil {
							rhs = ast.Unparen(d)
							drawNode = -1 // drawn in the enclosing function, before the callback runs
						}
						break
					}
					if dc, ok := rhs.(*ast.CallExpr); ok && p.callIs(fi.Pkg, dc, kSeqNext) {
						res[dc] = true
						if drawNode >= 0 {
							if cf.ReachableAfter(drawNode, setOf([]int{drawNode}), nil) {
								loop[dc] = true
							}
						} else {
							if id := outer.NodeContaining(dc); id >= 0 && id != on.ID && outer.ReachableAfter(id, setOf([]int{id}), nil) {
								loop[dc] = true
							}
						}
					}
				}
			}
		}
	}
	return res, loop
}

// comparesSeq: the function compares snapshot points (a Seq field or a Before / After method of one): it orders the
// transactions itself instead of relying on the order they were registered in.
func comparesSeq(fi *FuncInfo) bool {
	found := false
	ast.Inspect(fi.Decl.Body, func(x ast.Node) bool {
		switch n := x.(type) {
		case *ast.BinaryExpr:
			switch n.Op {
			case token.LSS, token.GTR, token.LEQ, token.GEQ:
				ast.Inspect(n, func(y ast.Node) bool {
					if sel, ok := y.(*ast.SelectorExpr); ok && sel.Sel.Name == "Seq" {
						found = true
					}
					return true
				})
			}
		case *ast.CallExpr:
			if sel, ok := n.Fun.(*ast.SelectorExpr); ok && (sel.Sel.Name == "Before" || sel.Sel.Name == "After") {
				found = true
			}
		}
		return true
	})
	return found
}
