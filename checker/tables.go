package main

// E4: extraction of finite tables from switch statements (resolved through go/types objects
// and folded constants, never through spelling of locals).

import (
	"go/ast"
	"go/types"
	"strings"
)

type caseRow struct {
	Labels  []string // case labels: object keys (errors.Is(x, S) contributes S); empty for default
	Default bool
	Assign  map[string]string // assigned variable/field path -> value key
	Return  []string          // value keys of the results of the first return statement in the body
	Clause  *ast.CaseClause
}

// valueKey renders the class-relevant identity of an expression: a named object, a wrap of a
// named error object (wrap:<obj>), a join (join:<obj>), nil, or the expression text.
func valueKey(info *types.Info, e ast.Expr) string {
	e = ast.Unparen(e)
	if isNilIdent(info, e) {
		return "nil"
	}
	if k := exprObjKey(info, e); k != "" && !strings.HasPrefix(k, "&") {
		return k
	}
	if c, ok := e.(*ast.CallExpr); ok {
		if isFunc(info, c, "fmt", "Errorf") && len(c.Args) >= 1 {
			format, _ := constStr(info, c.Args[0])
			verbs := fmtVerbs(format)
			for i, a := range c.Args[1:] {
				if i < len(verbs) && verbs[i] == 'w' {
					return "wrap:" + valueKey(info, a)
				}
			}
			return "errorf-without-%w"
		}
		if isFunc(info, c, "errors", "Join") {
			var parts []string
			for _, a := range c.Args {
				if k := exprObjKey(info, a); k != "" {
					if o := objOfSel(info, a); o != nil && o.Pkg() != nil && o.Parent() == o.Pkg().Scope() {
						parts = append(parts, k)
					}
				}
			}
			return "join:" + strings.Join(parts, ",")
		}
		// ptr.Ptr(x) and conversions are transparent
		if len(c.Args) == 1 {
			if tv, ok := info.Types[c.Fun]; ok && tv.IsType() {
				return valueKey(info, c.Args[0])
			}
			return types.ExprString(c.Fun) + "(" + valueKey(info, c.Args[0]) + ")"
		}
	}
	if u, ok := e.(*ast.UnaryExpr); ok {
		return u.Op.String() + valueKey(info, u.X)
	}
	if tv, ok := info.Types[e]; ok && tv.Value != nil {
		return tv.Value.ExactString()
	}
	return types.ExprString(e)
}

func objOfSel(info *types.Info, e ast.Expr) types.Object {
	switch x := ast.Unparen(e).(type) {
	case *ast.Ident:
		return objOf(info, x)
	case *ast.SelectorExpr:
		return info.Uses[x.Sel]
	}
	return nil
}

// lhsKey renders an assignment target: variable name is replaced by its object identity within the function.
func lhsKey(info *types.Info, e ast.Expr) string {
	switch x := ast.Unparen(e).(type) {
	case *ast.Ident:
		return "var"
	case *ast.SelectorExpr:
		return "." + x.Sel.Name
	}
	return types.ExprString(e)
}

func extractSwitch(info *types.Info, sw *ast.SwitchStmt) []caseRow {
	var rows []caseRow
	for _, st := range sw.Body.List {
		cc, ok := st.(*ast.CaseClause)
		if !ok {
			continue
		}
		row := caseRow{Assign: map[string]string{}, Clause: cc, Default: cc.List == nil}
		for _, l := range cc.List {
			if c, ok := ast.Unparen(l).(*ast.CallExpr); ok && isFunc(info, c, "errors", "Is") && len(c.Args) == 2 {
				row.Labels = append(row.Labels, exprObjKey(info, c.Args[1]))
			} else {
				row.Labels = append(row.Labels, valueKey(info, l))
			}
		}
		for _, bs := range cc.Body {
			ast.Inspect(bs, func(x ast.Node) bool {
				switch s := x.(type) {
				case *ast.FuncLit:
					return false
				case *ast.AssignStmt:
					if len(s.Lhs) == len(s.Rhs) {
						for i, l := range s.Lhs {
							row.Assign[lhsKey(info, l)] = valueKey(info, s.Rhs[i])
						}
					}
				case *ast.ReturnStmt:
					if row.Return == nil {
						for _, e := range s.Results {
							row.Return = append(row.Return, valueKey(info, e))
						}
					}
				}
				return true
			})
		}
		rows = append(rows, row)
	}
	return rows
}

// findSwitches returns the switch statements of a function body in source order (literals excluded).
func findSwitches(body ast.Node) []*ast.SwitchStmt {
	var res []*ast.SwitchStmt
	walkNoLit(body, func(x ast.Node) bool {
		if s, ok := x.(*ast.SwitchStmt); ok {
			res = append(res, s)
		}
		return true
	})
	return res
}

// enumConsts returns the declared constants of the named type in its package, by key.
func enumConsts(t *types.Named) map[string]string {
	res := map[string]string{}
	sc := t.Obj().Pkg().Scope()
	for _, n := range sc.Names() {
		if c, ok := sc.Lookup(n).(*types.Const); ok && types.Identical(c.Type(), t) {
			res[objKey(c)] = c.Val().ExactString()
		}
	}
	return res
}
