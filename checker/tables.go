package main

// E4: extraction of finite tables from switch statements (resolved through go/types objects
// and folded constants, never through spelling of locals).

import (
	"go/ast"
	"go/types"
	"strings"
)

type caseRow struct {
	Labels  []string // case labels: object keys (errors.Is(x, S) contributes S); empty for default
	Default bool
	Assign  map[string]string // assigned variable/field path -> value key
	Return  []string          // value keys of the results of the first return statement in the body
	Clause  *ast.CaseClause
	At      ast.Node // position of the row when it does not come from a case clause (a literal table)
}

// where returns the syntax node a row was read from.
func (r caseRow) where() ast.Node {
	if r.Clause != nil {
		return r.Clause
	}
	return r.At
}

// valueKey renders the class-relevant identity of an expression: a named object, a wrap of a
// named error object (wrap:<obj>), a join (join:<obj>), nil, or the expression text.
func valueKey(info *types.Info, e ast.Expr) string {
	e = ast.Unparen(e)
	if isNilIdent(info, e) {
		return "nil"
	}
	if k := exprObjKey(info, e); k != "" && !strings.HasPrefix(k, "&") {
		return k
	}
	if c, ok := e.(*ast.CallExpr); ok {
		if isFunc(info, c, "fmt", "Errorf") && len(c.Args) >= 1 {
			format, _ := constStr(info, c.Args[0])
			verbs := fmtVerbs(format)
			for i, a := range c.Args[1:] {
				if i < len(verbs) && verbs[i] == 'w' {
					return "wrap:" + valueKey(info, a)
				}
			}
			return "errorf-without-%w"
		}
		if isFunc(info, c, "errors", "Join") {
			var parts []string
			for _, a := range c.Args {
				if k := exprObjKey(info, a); k != "" {
					if o := objOfSel(info, a); o != nil && o.Pkg() != nil && o.Parent() == o.Pkg().Scope() {
						parts = append(parts, k)
					}
				}
			}
			return "join:" + strings.Join(parts, ",")
		}
		// ptr.Ptr(x) and conversions are transparent
		if len(c.Args) == 1 {
			if tv, ok := info.Types[c.Fun]; ok && tv.IsType() {
				return valueKey(info, c.Args[0])
			}
			return types.ExprString(c.Fun) + "(" + valueKey(info, c.Args[0]) + ")"
		}
	}
	if u, ok := e.(*ast.UnaryExpr); ok {
		return u.Op.String() + valueKey(info, u.X)
	}
	if tv, ok := info.Types[e]; ok && tv.Value != nil {
		return tv.Value.ExactString()
	}
	return types.ExprString(e)
}

func objOfSel(info *types.Info, e ast.Expr) types.Object {
	switch x := ast.Unparen(e).(type) {
	case *ast.Ident:
		return objOf(info, x)
	case *ast.SelectorExpr:
		return info.Uses[x.Sel]
	}
	return nil
}

// lhsKey renders an assignment target: variable name is replaced by its object identity within the function.
func lhsKey(info *types.Info, e ast.Expr) string {
	switch x := ast.Unparen(e).(type) {
	case *ast.Ident:
		return "var"
	case *ast.SelectorExpr:
		return "." + x.Sel.Name
	}
	return types.ExprString(e)
}

func extractSwitch(info *types.Info, sw *ast.SwitchStmt) []caseRow {
	var rows []caseRow
	for _, st := range sw.Body.List {
		cc, ok := st.(*ast.CaseClause)
		if !ok {
			continue
		}
		row := caseRow{Assign: map[string]string{}, Clause: cc, Default: cc.List == nil}
		for _, l := range cc.List {
			if c, ok := ast.Unparen(l).(*ast.CallExpr); ok && isFunc(info, c, "errors", "Is") && len(c.Args) == 2 {
				row.Labels = append(row.Labels, exprObjKey(info, c.Args[1]))
			} else {
				row.Labels = append(row.Labels, valueKey(info, l))
			}
		}
		for _, bs := range cc.Body {
			ast.Inspect(bs, func(x ast.Node) bool {
				switch s := x.(type) {
				case *ast.FuncLit:
					return false
				case *ast.AssignStmt:
					if len(s.Lhs) == len(s.Rhs) {
						for i, l := range s.Lhs {
							row.Assign[lhsKey(info, l)] = valueKey(info, s.Rhs[i])
						}
					}
				case *ast.ReturnStmt:
					if row.Return == nil {
						for _, e := range s.Results {
							row.Return = append(row.Return, valueKey(info, e))
						}
					}
				}
				return true
			})
		}
		rows = append(rows, row)
	}
	return rows
}

// findSwitches returns the switch statements of a function body in source order (literals excluded).
func findSwitches(body ast.Node) []*ast.SwitchStmt {
	var res []*ast.SwitchStmt
	walkNoLit(body, func(x ast.Node) bool {
		if s, ok := x.(*ast.SwitchStmt); ok {
			res = append(res, s)
		}
		return true
	})
	return res
}

// enumConsts returns the declared constants of the named type in its package, by key.
func enumConsts(t *types.Named) map[string]string {
	res := map[string]string{}
	sc := t.Obj().Pkg().Scope()
	for _, n := range sc.Names() {
		if c, ok := sc.Lookup(n).(*types.Const); ok && types.Identical(c.Type(), t) {
			res[objKey(c)] = c.Val().ExactString()
		}
	}
	return res
}

// literalTableRows reads a lookup table written as a package-level composite literal and used by fi:
//
//	map[K]V{k1: v1, ...}                      -> rows k -> v
//	[]struct{a, b}{{a: x1, b: y1}, ...}       -> rows x -> y, where the label is the field holding an fs_db sentinel
//	                                              (server side: class -> code), otherwise the first field
//
// A value that the using function returns wrapped (fmt.Errorf("...%w", v) with v taken from the table) is
// rendered wrap:<v>, as extractSwitch renders the equivalent return statement. A miss of a comma-ok look-up
// ("if !ok { return X }") becomes the default row.
func (p *Prog) literalTableRows(fi *FuncInfo) [][]caseRow {
	info := fi.Pkg.TypesInfo
	var tables [][]caseRow
	seen := map[types.Object]bool{}
	ast.Inspect(fi.Decl.Body, func(x ast.Node) bool {
		id, ok := x.(*ast.Ident)
		if !ok {
			return true
		}
		v, ok := info.Uses[id].(*types.Var)
		if !ok || v.Pkg() == nil || v.Parent() != v.Pkg().Scope() || seen[v] {
			return true
		}
		seen[v] = true
		init, ipkg := p.pkgVarInit(v)
		cl, ok := init.(*ast.CompositeLit)
		if !ok || ipkg == nil {
			return true
		}
		iinfo := ipkg.TypesInfo
		// how the function uses a value taken from the table: wrapped with %w?
		wrapped := false
		lookedUp := map[types.Object]bool{}
		var okObj types.Object
		ast.Inspect(fi.Decl.Body, func(y ast.Node) bool {
			switch st := y.(type) {
			case *ast.AssignStmt:
				if len(st.Rhs) == 1 {
					if ix, isIx := ast.Unparen(st.Rhs[0]).(*ast.IndexExpr); isIx && objOf(info, ix.X) == v {
						if o := objOf(info, st.Lhs[0]); o != nil {
							lookedUp[o] = true
						}
						if len(st.Lhs) == 2 {
							okObj = objOf(info, st.Lhs[1])
						}
					}
				}
			case *ast.RangeStmt:
				if objOf(info, st.X) == v && st.Value != nil {
					if o := objOf(info, st.Value); o != nil {
						lookedUp[o] = true
					}
				}
			}
			return true
		})
		ast.Inspect(fi.Decl.Body, func(y ast.Node) bool {
			if c, isC := y.(*ast.CallExpr); isC && isFunc(info, c, "fmt", "Errorf") && len(c.Args) > 1 {
				format, _ := constStr(info, c.Args[0])
				verbs := fmtVerbs(format)
				for i, a := range c.Args[1:] {
					if i < len(verbs) && verbs[i] == 'w' {
						if o := objOf(info, a); o != nil && lookedUp[o] {
							wrapped = true
						}
					}
				}
			}
			return true
		})
		render := func(k string) string {
			if wrapped {
				return "wrap:" + k
			}
			return k
		}
		var rows []caseRow
		for _, el := range cl.Elts {
			switch e := el.(type) {
			case *ast.KeyValueExpr:
				if _, isMap := iinfo.Types[cl].Type.Underlying().(*types.Map); isMap {
					rows = append(rows, caseRow{Labels: []string{valueKey(iinfo, e.Key)}, Return: []string{render(valueKey(iinfo, e.Value))}, Assign: map[string]string{}, At: e})
				}
			case *ast.CompositeLit:
				var vals []string
				for _, fe := range e.Elts {
					if kv, isKV := fe.(*ast.KeyValueExpr); isKV {
						vals = append(vals, valueKey(iinfo, kv.Value))
					} else if ex, isE := fe.(ast.Expr); isE {
						vals = append(vals, valueKey(iinfo, ex))
					}
				}
				if len(vals) != 2 {
					continue
				}
				label, val := vals[0], vals[1]
				if strings.HasPrefix(vals[1], "fs_db.") && !strings.HasPrefix(vals[0], "fs_db.") {
					label, val = vals[1], vals[0]
				}
				rows = append(rows, caseRow{Labels: []string{label}, Assign: map[string]string{"var": val}, At: e})
			}
		}
		if len(rows) == 0 {
			return true
		}
		// the miss branch of a comma-ok look-up is the default row
		if okObj != nil {
			ast.Inspect(fi.Decl.Body, func(y ast.Node) bool {
				ifs, isIf := y.(*ast.IfStmt)
				if !isIf {
					return true
				}
				u, isU := ast.Unparen(ifs.Cond).(*ast.UnaryExpr)
				if !isU || u.Op.String() != "!" || objOf(info, u.X) != okObj {
					return true
				}
				for _, bs := range ifs.Body.List {
					if rs, isR := bs.(*ast.ReturnStmt); isR && len(rs.Results) > 0 {
						var ret []string
						for _, e := range rs.Results {
							ret = append(ret, valueKey(info, e))
						}
						rows = append(rows, caseRow{Default: true, Return: ret, Assign: map[string]string{}, At: ifs})
					}
				}
				return true
			})
		}
		tables = append(tables, rows)
		return true
	})
	return tables
}
