package main

// C11 The gRPC client is indistinguishable from the inline client.

import (
	"fmt"
	"go/ast"
	"go/constant"
	"go/token"
	"go/types"
	"golang.org/x/tools/go/packages"
	"sort"
	"strconv"
	"strings"
)

func init() { register("C11", propC11) }

const (
	pkgAdapterErr = "internal/adapter/errors"
	kAdErr        = "internal/adapter/errors.Error"
	kAdClientErr  = "internal/adapter/errors.ClientError"
	pkgExtDB      = "pkg/external/db"
	pkgDelivery   = "internal/delivery/grpc/store"
	pkgProto      = "internal/proto"
)

// rootSentinels returns the exported error variables of the root package, aliases resolved.
func rootSentinels(p *Prog) (vars map[types.Object]string) {
	vars = map[types.Object]string{}
	root := p.Pkg(".")
	if root == nil {
		return
	}
	info := root.TypesInfo
	alias := map[types.Object]types.Object{}
	for _, f := range root.Syntax {
		ast.Inspect(f, func(x ast.Node) bool {
			vs, ok := x.(*ast.ValueSpec)
			if !ok {
				return true
			}
			for i, nm := range vs.Names {
				o := info.Defs[nm]
				if o == nil || o.Parent() != root.Types.Scope() || !isErrorType(o.Type()) {
					continue
				}
				if i < len(vs.Values) {
					if id, ok := vs.Values[i].(*ast.Ident); ok {
						if t := info.Uses[id]; t != nil && t.Parent() == root.Types.Scope() {
							alias[o] = t
							continue
						}
					}
				}
				vars[o] = objKey(o)
			}
			return true
		})
	}
	for a, t := range alias {
		vars[a] = objKey(t)
	}
	return
}

func handlerKeys(p *Prog) []string {
	var res []string
	for _, k := range p.methodsOf(pkgDelivery, "Service") {
		if p.Funcs[k].Obj.Exported() {
			res = append(res, k)
		}
	}
	return res
}

// serverSentinels computes Σ: sentinels of the root package used by any function reachable from the handlers
// (the adapter itself excluded).
func serverSentinels(p *Prog) (map[string][]string, []string) {
	sent := rootSentinels(p)
	cg := p.CallGraph()
	hs := handlerKeys(p)
	reach := cg.Reachable(hs, func(k string) bool { return strings.HasPrefix(k, pkgAdapterErr+".") })
	where := map[string][]string{}
	var fns []string
	for k := range reach {
		fns = append(fns, k)
	}
	sort.Strings(fns)
	for _, k := range fns {
		fi := p.Funcs[k]
		if fi == nil || fi.Decl.Body == nil || shortPath(fi.Pkg.PkgPath) == pkgAdapterErr {
			continue
		}
		ast.Inspect(fi.Decl.Body, func(x ast.Node) bool {
			var id *ast.Ident
			switch e := x.(type) {
			case *ast.SelectorExpr:
				id = e.Sel
			case *ast.Ident:
				id = e
			}
			if id != nil {
				if o := fi.Pkg.TypesInfo.Uses[id]; o != nil {
					if key, ok := sent[o]; ok {
						where[key] = append(where[key], k)
					}
				}
			}
			return true
		})
	}
	return where, hs
}

type errTables struct {
	ToPb     []caseRow // sentinel -> ErrorCode (ordered)
	FromPb   []caseRow // ErrorCode -> wrap:sentinel
	ToCode   []caseRow // sentinel -> codes.Code
	FromCode []caseRow // codes.Code -> wrap:sentinel
	toPbFn   *FuncInfo
	fromPbFn *FuncInfo
}

func firstMatch(rows []caseRow, label string) (caseRow, bool) {
	for _, r := range rows {
		for _, l := range r.Labels {
			if l == label {
				return r, true
			}
		}
	}
	return caseRow{}, false
}

func defaultRow(rows []caseRow) (caseRow, bool) {
	for _, r := range rows {
		if r.Default {
			return r, true
		}
	}
	return caseRow{}, false
}

func rowVal(r caseRow) string {
	if n := len(r.Return); n > 0 {
		// (value, found) results: the trailing flag is not the value
		for i := n - 1; i >= 0; i-- {
			if r.Return[i] != "true" && r.Return[i] != "false" {
				return r.Return[i]
			}
		}
		return r.Return[n-1]
	}
	for _, v := range r.Assign {
		return v
	}
	return ""
}

func tableJSON(rows []caseRow) []map[string]any {
	var res []map[string]any
	for _, r := range rows {
		m := map[string]any{"labels": r.Labels, "value": rowVal(r)}
		if r.Default {
			m["default"] = true
		}
		res = append(res, m)
	}
	return res
}

// switchWith finds, among the functions of pkg reachable from root (inclusive), the first switch
// statement for which pred holds.
func switchWith(p *Prog, root string, pkgShort string, pred func(fi *FuncInfo, rows []caseRow) bool) (*FuncInfo, []caseRow) {
	cg := p.CallGraph()
	reach := cg.Reachable([]string{root}, func(k string) bool { return !strings.HasPrefix(k, pkgShort+".") && !strings.Contains(k, pkgShort+".") })
	var keys []string
	for k := range reach {
		keys = append(keys, k)
	}
	sort.Strings(keys)
	// root first
	keys = append([]string{root}, keys...)
	for _, k := range keys {
		fi := p.Funcs[k]
		if fi == nil || fi.Decl.Body == nil {
			continue
		}
		for _, sw := range findSwitches(fi.Decl.Body) {
			rows := extractSwitch(fi.Pkg.TypesInfo, sw)
			if pred(fi, rows) {
				return fi, rows
			}
		}
	}
	// the table may be written as data: a package-level map or slice literal the function looks values up in
	for _, k := range keys {
		fi := p.Funcs[k]
		if fi == nil || fi.Decl.Body == nil {
			continue
		}
		for _, rows := range p.literalTableRows(fi) {
			if pred(fi, rows) {
				return fi, rows
			}
		}
	}
	return nil, nil
}

func propC11(p *Prog, r *Report) {
	r.Rule("C11.a", "error tables round-trip: Σ = exported sentinels of package fs_db used by any function reachable (CHA call graph over product packages) from the seven service handlers, adapter excluded; for every S in Σ the client-side table applied to the server-side table yields S again (typed detail path: errorToPb then detailsToError; status-code path only when the server table has no detail row); the server table is injective on Σ; unknown maps to ErrUnknown on both sides; ClientError consults the details before the status code and returns their verdict")
	r.Rule("C11.b", "isolation-level tables: Convert∘ConvertToGrpc = id on the declared levels, ConvertToGrpc∘Convert = id on the proto enum, both defaults are ReadCommitted (compared by constant value)")
	r.Rule("C11.c", "transaction-id plumbing: all Store methods of fs_db.tx pass ctxFn(ctx); inline tx stores the id with model.StoreTxId and usecases read it with model.GetTxId (same key type); the external tx appends metadata under the very constant both server interceptors read; both interceptors are installed in app.New")
	r.Rule("C11.d", "no gRPC error is dropped or reaches the caller raw: in pkg/external/db every error-returning call on the gRPC client, a client stream, the stream writer/reader or io.Copy is consumed on every path on which it may be non-nil (io.EOF loop terminators accepted) and passes through adapter ClientError before it is returned; a deferred Close is a drop; objects handed to the user (File from Create, ReadCloser from GetReader) must sanitise the errors of their Write/Close/Read the same way")
	r.Rule("C11.e", "server handlers adapt uniformly: every non-nil error returned by a service handler is adapter Error(...)")
	r.Rule("C11.f", "framing: in SetReader/Create the header Send precedes the construction of the chunk writer; writer chunk size and the server's GetFile buffer use the same constant")
	r.NotDecided = []string{"equality of returned values over histories and content sizes", "gRPC transport semantics (trusted)"}
	r.Assume = []string{"google.golang.org/grpc status/details round trip as documented", "errors.Is matches exactly the wrapped sentinel"}

	c11Tables(p, r)
	c11Levels(p, r)
	c11Plumbing(p, r, "C11.c")
	c11ClientFlows(p, r)
	c11Handlers(p, r)
	c11Framing(p, r)
	r.Rule("C11.g", "chunk discipline: the GetFile handler sends buf[:n] of the Read that filled the buffer; the stream writer sends a non-empty remainder before CloseAndRecv and returns every Send / CloseAndRecv error")
	c11Chunks(p, r, "C11.g")
	c11CtxFromCaller(p, r, "C11.c")
	r.Rule("C11.j", "the external transaction handle always asks the server: every return of Commit / Rollback is preceded by the RPC")
	c11ClientAlwaysAsks(p, r, "C11.j")
	r.Rule("C11.k", "the handlers originate no sentinel of their own except the protocol error ErrHeaderNotFound")
	c11HandlersOriginateNoSentinels(p, r, "C11.k")
	r.Rule("C11.h", "write order is wire order: in the stream writer's Write no Send takes its payload from the argument of the current call while earlier bytes may still be buffered (the buffer is tested or drained first)")
	c11WriterFIFO(p, r, "C11.h")
	r.Rule("C11.i", "no transport option lowers the gRPC message size limit below the library default (keys are unbounded and travel in one message)")
	c11MessageLimits(p, r, "C11.i")
}

func c11Tables(p *Prog, r *Report) {
	sigma, hs := serverSentinels(p)
	r.Floor("C11.a", "service-handlers", len(hs), 7)
	var ss []string
	for s := range sigma {
		ss = append(ss, s)
	}
	sort.Strings(ss)
	r.Floor("C11.a", "server-producible-sentinels", len(ss), 7)
	r.Tables["sigma"] = sigma
	if p.Func(kAdErr) == nil || p.Func(kAdClientErr) == nil {
		r.Undecided("C11.a", "adapter", "", "adapter Error/ClientError not found")
		return
	}
	isErrCode := func(fi *FuncInfo, key string) bool { return strings.HasPrefix(key, pkgProto+".ErrorCode_") }
	_ = isErrCode
	var t errTables
	t.toPbFn, t.ToPb = switchWith(p, kAdErr, pkgAdapterErr, func(fi *FuncInfo, rows []caseRow) bool {
		for _, row := range rows {
			if strings.HasPrefix(rowVal(row), pkgProto+".ErrorCode_") && len(row.Labels) > 0 && strings.HasPrefix(row.Labels[0], "fs_db.") {
				return true
			}
		}
		return false
	})
	t.fromPbFn, t.FromPb = switchWith(p, kAdClientErr, pkgAdapterErr, func(fi *FuncInfo, rows []caseRow) bool {
		for _, row := range rows {
			if len(row.Labels) > 0 && strings.HasPrefix(row.Labels[0], pkgProto+".ErrorCode_") {
				return true
			}
		}
		return false
	})
	_, t.ToCode = switchWith(p, kAdErr, pkgAdapterErr, func(fi *FuncInfo, rows []caseRow) bool {
		for _, row := range rows {
			if strings.Contains(rowVal(row), "grpc/codes.") {
				return fi.Key == kAdErr
			}
		}
		return false
	})
	_, t.FromCode = switchWith(p, kAdClientErr, pkgAdapterErr, func(fi *FuncInfo, rows []caseRow) bool {
		for _, row := range rows {
			if len(row.Labels) > 0 && strings.Contains(row.Labels[0], "grpc/codes.") {
				return fi.Key == kAdClientErr
			}
		}
		return false
	})
	// a client table may select the sentinel in the switch and wrap it once afterwards:
	//   switch code { case X: cause = S }; return fmt.Errorf("%s: %w", msg, cause)
	wrapsAfter := func(fi *FuncInfo, rows []caseRow) []caseRow {
		if fi == nil {
			return rows
		}
		finfo := fi.Pkg.TypesInfo
		wrapped := false
		ast.Inspect(fi.Decl.Body, func(x ast.Node) bool {
			rs, ok := x.(*ast.ReturnStmt)
			if !ok {
				return true
			}
			for _, e := range rs.Results {
				c, ok := ast.Unparen(e).(*ast.CallExpr)
				if !ok || !isFunc(finfo, c, "fmt", "Errorf") || len(c.Args) < 2 {
					continue
				}
				format, _ := constStr(finfo, c.Args[0])
				verbs := fmtVerbs(format)
				for i, a := range c.Args[1:] {
					if o, isVar := objOf(finfo, a).(*types.Var); isVar && !o.IsField() && isErrorType(o.Type()) && i < len(verbs) && verbs[i] == 'w' {
						wrapped = true
					}
				}
			}
			return true
		})
		if !wrapped {
			return rows
		}
		out := make([]caseRow, len(rows))
		copy(out, rows)
		for i := range out {
			if len(out[i].Return) == 0 && len(out[i].Assign) == 1 {
				for k, v := range out[i].Assign {
					if strings.HasPrefix(v, "fs_db.Err") {
						na := map[string]string{k: "wrap:" + v}
						out[i].Assign = na
					}
				}
			}
		}
		return out
	}
	var fromCodeFn *FuncInfo
	fromCodeFn, _ = switchWith(p, kAdClientErr, pkgAdapterErr, func(fi *FuncInfo, rows []caseRow) bool {
		for _, row := range rows {
			if len(row.Labels) > 0 && strings.Contains(row.Labels[0], "grpc/codes.") {
				return fi.Key == kAdClientErr
			}
		}
		return false
	})
	t.FromPb = wrapsAfter(t.fromPbFn, t.FromPb)
	t.FromCode = wrapsAfter(fromCodeFn, t.FromCode)
	r.Tables["server_sentinel_to_detail_code"] = tableJSON(t.ToPb)
	r.Tables["client_detail_code_to_sentinel"] = tableJSON(t.FromPb)
	r.Tables["server_sentinel_to_status_code"] = tableJSON(t.ToCode)
	r.Tables["client_status_code_to_sentinel"] = tableJSON(t.FromCode)
	{
		// the adapter's entry points run on abstract errors: whatever the tables are written as (switches, look-up
		// helpers that return the sentinel for the caller to wrap, data searched by generic helpers), this is what
		// travels; the syntactic reading above stays as the fallback for adapters outside the evaluator's fragment
		var t2 errTables
		if c11TablesByEval(p, &t2) {
			t = t2
			fromCodeFn = p.Func(kAdClientErr)
			r.Tables["server_sentinel_to_detail_code"] = tableJSON(t.ToPb)
			r.Tables["client_detail_code_to_sentinel"] = tableJSON(t.FromPb)
			r.Tables["server_sentinel_to_status_code"] = tableJSON(t.ToCode)
			r.Tables["client_status_code_to_sentinel"] = tableJSON(t.FromCode)
		}
	}
	if t.ToPb == nil || t.FromPb == nil {
		r.Undecided("C11.a", "detail-tables", "", "the typed-detail tables of the adapter could not be located (a tagless switch over errors.Is assigning an ErrorCode, and a switch over ErrorCode)")
		return
	}
	seenCode := map[string]string{}
	for _, S := range ss {
		cons := "sentinel " + S
		pos := ""
		row, ok := firstMatch(t.ToPb, S)
		if ok {
			pos = p.pos(row.where())
			ec := rowVal(row)
			if prev, dup := seenCode[ec]; dup && prev != S {
				r.Viol("C11.a", cons+"/injective", pos, fmt.Sprintf("server maps both %s and %s to %s: the client cannot tell them apart", prev, S, ec))
			}
			seenCode[ec] = S
			back, ok2 := firstMatch(t.FromPb, ec)
			if !ok2 {
				// no client row: falls through to the status-code path
				c11StatusPath(p, r, &t, S, cons, pos, "client has no row for detail code "+ec)
				continue
			}
			got := rowVal(back)
			r.Check(got == "wrap:"+S, "C11.a", cons+"/round-trip", p.pos(back.where()),
				fmt.Sprintf("%s -> %s -> %s", S, ec, got),
				fmt.Sprintf("server sends %s as %s, the client turns %s into %s: errors.Is(err, %s) is false on the client", S, ec, ec, got, S))
		} else {
			// server attaches the default detail code (zero value = ErrUnknown): client detail row for it wins
			c11StatusPath(p, r, &t, S, cons, p.pos(t.toPbFn.Decl), "server table has no detail row for "+S)
		}
	}
	// unknown -> ErrUnknown on both sides
	var zeroCode string
	if nt := protoNamed(p, "ErrorCode"); nt != nil {
		for k, v := range enumConsts(nt) {
			if v == "0" {
				zeroCode = k
			}
		}
		r.Tables["proto_error_codes"] = enumConsts(nt)
	}
	if zeroCode == "" {
		r.Undecided("C11.a", "unknown-code", "", "proto ErrorCode has no zero value")
	} else {
		if _, hasDef := defaultRow(t.ToPb); hasDef {
			d, _ := defaultRow(t.ToPb)
			r.Check(rowVal(d) == zeroCode || rowVal(d) == "", "C11.a", "unknown/server", p.pos(d.where()), "default detail code is "+zeroCode, "server default detail code is "+rowVal(d)+", not the unknown code")
		} else {
			r.Hold("C11.a", "unknown/server", p.pos(t.toPbFn.Decl), "no default case: unlisted errors keep the zero value "+zeroCode)
		}
		back, ok := firstMatch(t.FromPb, zeroCode)
		if ok {
			r.Check(rowVal(back) == "wrap:fs_db.ErrUnknown", "C11.a", "unknown/client", p.pos(back.where()), zeroCode+" -> ErrUnknown", "client maps the unknown detail code to "+rowVal(back))
		} else {
			// falls to the status path: Internal must give ErrUnknown
			ir, ok2 := firstMatch(t.FromCode, "google.golang.org/grpc/codes.Internal")
			d, hasD := defaultRow(t.FromCode)
			good := (ok2 && rowVal(ir) == "wrap:fs_db.ErrUnknown") || (!ok2 && hasD && strings.Contains(rowVal(d), "fs_db.ErrUnknown"))
			r.Check(good, "C11.a", "unknown/client", p.pos(t.fromPbFn.Decl), "unknown code falls back to status Internal -> ErrUnknown", "an unlisted server error does not become ErrUnknown on the client")
		}
	}
	// client default of the status path
	if d, ok := defaultRow(t.FromCode); ok {
		r.Check(strings.Contains(rowVal(d), "fs_db.ErrUnknown"), "C11.a", "unknown/client-status-default", p.pos(d.where()), "status default joins ErrUnknown", "client status-code default does not yield ErrUnknown")
	}
	// status-code tables agreement is informational (the detail path decides for server-produced errors)
	for _, S := range ss {
		if row, ok := firstMatch(t.ToCode, S); ok {
			code := rowVal(row)
			if back, ok := firstMatch(t.FromCode, code); ok && rowVal(back) != "wrap:"+S {
				r.Note("status-code tables disagree for %s (%s -> %s); not a violation while the typed detail decides", S, code, rowVal(back))
			}
		}
	}
	// details consulted first
	ce := p.Func(kAdClientErr)
	f := p.FlatOf(ce)
	sites := f.CallSites(t.fromPbFn.Key)
	if len(sites) == 0 {
		r.Viol("C11.a", kAdClientErr+"#details-first", p.pos(ce.Decl), "ClientError does not consult the typed details")
	} else {
		var sw []int
		for _, n := range f.Nodes {
			if n.Ast == nil {
				continue
			}
			for _, c := range callsIn(n.Ast, false) {
				if sel, ok := c.Fun.(*ast.SelectorExpr); ok && sel.Sel.Name == "Code" && len(c.Args) == 0 {
					sw = append(sw, n.ID)
				}
			}
		}
		if flagOK, verdictReturned, handled := c11VerdictByFlag(p, f, ce, sites[0], sw); handled {
			// the details answer (error, found): the flag decides, the error is returned as it is
			r.Check(flagOK && len(sw) > 0, "C11.a", kAdClientErr+"#details-first", p.pos(sites[0].Call), "status code consulted only when the details gave no verdict (found = false)",
				"the status code is consulted although the details already gave a verdict (the found flag is true)")
			r.Check(verdictReturned, "C11.a", kAdClientErr+"#details-verdict-returned", p.pos(sites[0].Call), "the verdict of the details is returned as it is", "the verdict of the details is not what ClientError returns when they gave one")
		} else {
			ok, _, st := f.GatedBy(sites[0], sw)
			r.Check(ok && len(sw) > 0, "C11.a", kAdClientErr+"#details-first", p.pos(sites[0].Call), "status code consulted only when the details gave no verdict",
				"the status code is consulted although the details already gave a verdict ("+strings.Join(st, ",")+")")
			f.SiteConsumed(r, "C11.a", kAdClientErr+"#details-verdict-returned", ce, sites[0], flowOpts{Class: true})
		}
	}
	// server attaches the details computed from the very error
	se := p.Func(kAdErr)
	attached := false
	info := se.Pkg.TypesInfo
	var param types.Object
	if ps := se.Decl.Type.Params.List; len(ps) == 1 && len(ps[0].Names) == 1 {
		param = info.Defs[ps[0].Names[0]]
	}
	ast.Inspect(se.Decl.Body, func(x ast.Node) bool {
		if c, ok := x.(*ast.CallExpr); ok {
			if sel, ok := c.Fun.(*ast.SelectorExpr); ok && sel.Sel.Name == "WithDetails" {
				for _, a := range c.Args {
					// the detail is the table function's result, or a message built around it (&store.Error{Code: f(err)})
					ast.Inspect(a, func(y ast.Node) bool {
						if ac, ok := y.(*ast.CallExpr); ok && p.callIs(se.Pkg, ac, t.toPbFn.Key) && len(ac.Args) == 1 && objOf(info, ac.Args[0]) == param {
							attached = true
						}
						return true
					})
				}
			}
		}
		return true
	})
	if t.toPbFn.Key == kAdErr {
		attached = true
	}
	r.Check(attached, "C11.a", kAdErr+"#attaches-details", p.pos(se.Decl), "Error attaches WithDetails(errorToPb(err))", "the server no longer attaches the typed detail computed from the error")
}

func c11StatusPath(p *Prog, r *Report, t *errTables, S, cons, pos, why string) {
	// the client sees the zero/absent detail: if the client has a row for the zero code that wins
	row, ok := firstMatch(t.ToCode, S)
	if !ok {
		r.Viol("C11.a", cons+"/round-trip", pos, why+" and no status code either: the client reports ErrUnknown")
		return
	}
	// detail for unknown code present on the client?
	for _, fr := range t.FromPb {
		for _, l := range fr.Labels {
			if strings.HasSuffix(l, "ErrorCode_ErrUnknown") {
				r.Viol("C11.a", cons+"/round-trip", pos, why+": the client's detail row for the unknown code turns it into ErrUnknown before the status code is consulted")
				return
			}
		}
	}
	code := rowVal(row)
	back, ok := firstMatch(t.FromCode, code)
	r.Check(ok && rowVal(back) == "wrap:"+S, "C11.a", cons+"/round-trip", pos, fmt.Sprintf("%s -> status %s -> %s", S, code, rowVal(back)),
		why+fmt.Sprintf("; status path %s -> %s does not give %s back", code, rowVal(back), S))
}

func protoNamed(p *Prog, name string) *types.Named {
	pp := p.Pkg(pkgProto)
	if pp == nil {
		return nil
	}
	tn, _ := pp.Types.Scope().Lookup(name).(*types.TypeName)
	if tn == nil {
		return nil
	}
	nt, _ := tn.Type().(*types.Named)
	return nt
}

func constValOfKey(p *Prog, key string) (string, bool) {
	i := strings.LastIndex(key, ".")
	if i < 0 {
		return "", false
	}
	pk, name := key[:i], key[i+1:]
	if pk == "fs_db" {
		pk = "."
	}
	pkg := p.Pkg(pk)
	if pkg == nil {
		return "", false
	}
	c, ok := pkg.Types.Scope().Lookup(name).(*types.Const)
	if !ok {
		return "", false
	}
	return c.Val().ExactString(), true
}

func c11Levels(p *Prog, r *Report) {
	conv, toG := p.Func("internal/adapter/iso_level.Convert"), p.Func("internal/adapter/iso_level.ConvertToGrpc")
	if conv == nil || toG == nil {
		r.Undecided("C11.b", "iso_level", "", "Convert/ConvertToGrpc not found")
		return
	}
	table := func(fi *FuncInfo) (map[string]string, string, bool) {
		sws := findSwitches(fi.Decl.Body)
		if len(sws) != 1 {
			return nil, "", false
		}
		rows := extractSwitch(fi.Pkg.TypesInfo, sws[0])
		m := map[string]string{}
		def := ""
		for _, row := range rows {
			v, ok := constValOfKey(p, rowVal(row))
			if !ok {
				return nil, "", false
			}
			if row.Default {
				def = v
			}
			for _, l := range row.Labels {
				lv, ok := constValOfKey(p, l)
				if !ok {
					return nil, "", false
				}
				if _, dup := m[lv]; !dup {
					m[lv] = v
				}
			}
		}
		if def == "" {
			// value returned after the switch
			if n := len(fi.Decl.Body.List); n > 0 {
				if rs, ok := fi.Decl.Body.List[n-1].(*ast.ReturnStmt); ok && len(rs.Results) == 1 {
					if v, ok := constValOfKey(p, valueKey(fi.Pkg.TypesInfo, rs.Results[0])); ok {
						def = v
					}
				}
			}
		}
		return m, def, true
	}
	// the converters evaluated on every declared level of their domain and on one value outside it (whatever
	// control structure they use: a switch with returns, a defaulted local, a table)
	evalTable := func(fi *FuncInfo, domain []string) (map[string]string, string, bool) {
		m := map[string]string{}
		for _, v := range domain {
			n, err := strconv.ParseInt(v, 10, 64)
			if err != nil {
				return nil, "", false
			}
			res, err := evalMethod(p, fi, intVal(n))
			if err != nil || res == nil || res.C == nil {
				return nil, "", false
			}
			m[v] = res.C.ExactString()
		}
		res, err := evalMethod(p, fi, intVal(97))
		if err != nil || res == nil || res.C == nil {
			return nil, "", false
		}
		return m, res.C.ExactString(), true
	}
	var grpcDomain, modelDomain []string
	if nt := protoNamed(p, "TxIsoLevel"); nt != nil {
		for _, v := range enumConsts(nt) {
			grpcDomain = append(grpcDomain, v)
		}
	}
	if rootPkg := p.Pkg("."); rootPkg != nil {
		seenV := map[string]bool{}
		for _, n := range rootPkg.Types.Scope().Names() {
			if c, ok := rootPkg.Types.Scope().Lookup(n).(*types.Const); ok && strings.HasSuffix(c.Type().String(), "model.TxIsoLevel") && !seenV[c.Val().ExactString()] {
				seenV[c.Val().ExactString()] = true
				modelDomain = append(modelDomain, c.Val().ExactString())
			}
		}
	}
	sort.Strings(grpcDomain)
	sort.Strings(modelDomain)
	g2m, g2mDef, ok1 := table(conv)
	m2g, m2gDef, ok2 := table(toG)
	if !ok1 || !ok2 || g2mDef == "" || m2gDef == "" {
		if a, ad, okA := evalTable(conv, grpcDomain); okA {
			if b, bd, okB := evalTable(toG, modelDomain); okB {
				g2m, g2mDef, m2g, m2gDef, ok1, ok2 = a, ad, b, bd, true, true
			}
		}
	}
	if !ok1 || !ok2 {
		r.Undecided("C11.b", "iso_level", p.pos(conv.Decl), "converters are not single switches over constants")
		return
	}
	r.Tables["level_grpc_to_model"] = g2m
	r.Tables["level_model_to_grpc"] = m2g
	app := func(m map[string]string, def, v string) string {
		if x, ok := m[v]; ok {
			return x
		}
		return def
	}
	// declared model levels
	root := p.Pkg(".")
	var levels []string
	names := map[string]string{}
	for _, n := range root.Types.Scope().Names() {
		if c, ok := root.Types.Scope().Lookup(n).(*types.Const); ok && strings.HasSuffix(c.Type().String(), "model.TxIsoLevel") {
			v := c.Val().ExactString()
			if _, seen := names[v]; !seen {
				levels = append(levels, v)
				names[v] = n
			} else if n != "IsoLevelDefault" && names[v] == "IsoLevelDefault" {
				names[v] = n
			}
		}
	}
	sort.Strings(levels)
	r.Floor("C11.b", "declared-levels", len(levels), 4)
	rcVal, _ := constValOfKey(p, "fs_db.IsoLevelReadCommitted")
	for _, v := range levels {
		w := app(m2g, m2gDef, v)
		back := app(g2m, g2mDef, w)
		r.Check(back == v, "C11.b", "level "+names[v], p.pos(toG.Decl), fmt.Sprintf("%s -> grpc %s -> %s", v, w, back),
			fmt.Sprintf("level %s (%s) is sent as %s and received as %s: the server runs the transaction at another isolation level", names[v], v, w, back))
	}
	if nt := protoNamed(p, "TxIsoLevel"); nt != nil {
		ec := enumConsts(nt)
		var ks []string
		for k := range ec {
			ks = append(ks, k)
		}
		sort.Strings(ks)
		for _, k := range ks {
			w := ec[k]
			v := app(g2m, g2mDef, w)
			back := app(m2g, m2gDef, v)
			r.Check(back == w, "C11.b", "proto "+k, p.pos(conv.Decl), fmt.Sprintf("%s -> model %s -> %s", w, v, back),
				fmt.Sprintf("proto level %s is read as %s and written back as %s", k, v, back))
		}
	}
	r.Check(g2mDef == rcVal, "C11.b", "default/Convert", p.pos(conv.Decl), "default is ReadCommitted", "Convert's default is not ReadCommitted")
	protoRC, _ := constValOfKey(p, pkgProto+".TxIsoLevel_ISO_LEVEL_READ_COMMITTED")
	r.Check(m2gDef == protoRC, "C11.b", "default/ConvertToGrpc", p.pos(toG.Decl), "default is READ_COMMITTED", "ConvertToGrpc's default is not READ_COMMITTED")
	// the converters are actually applied on both ends
	cg := p.CallGraph()
	usedBy := func(k string, prefix string) bool {
		for _, in := range cg.In[k] {
			if strings.Contains(in, prefix) {
				return true
			}
		}
		return false
	}
	r.Check(usedBy(toG.Key, pkgExtDB), "C11.b", "applied/client", p.pos(toG.Decl), "external Begin converts with ConvertToGrpc", "external client does not convert the level with ConvertToGrpc")
	r.Check(usedBy(conv.Key, pkgDelivery), "C11.b", "applied/server", p.pos(conv.Decl), "BeginTx handler converts with Convert", "server handler does not convert the level with Convert")
}

// c11Plumbing: transaction id travels from the Tx handle to the usecases (also C02.e).
func c11Plumbing(p *Prog, r *Report, rule string) {
	root := p.Pkg(".")
	// (1) fs_db.tx methods
	n := 0
	// (the handle's Store methods, whatever the unexported type that carries them is called: tx, scopedStore)
	var handleMethods []string
	for _, k := range sortedFuncKeys(p) {
		if c := p.Funcs[k]; c.Pkg == root && c.Decl != nil && c.Decl.Recv != nil && c.Decl.Body != nil && !ast.IsExported(recvDeclTypeName(c.Decl)) {
			handleMethods = append(handleMethods, k)
		}
	}
	for _, k := range handleMethods {
		fi := p.Funcs[k]
		info := fi.Pkg.TypesInfo
		if len(fi.Decl.Type.Params.List) == 0 {
			continue
		}
		var ctxParam types.Object
		if nm := fi.Decl.Type.Params.List[0].Names; len(nm) > 0 {
			ctxParam = info.Defs[nm[0]]
		}
		ast.Inspect(fi.Decl.Body, func(x ast.Node) bool {
			c, ok := x.(*ast.CallExpr)
			if !ok {
				return true
			}
			sel, ok := c.Fun.(*ast.SelectorExpr)
			if !ok {
				return true
			}
			inner, ok := sel.X.(*ast.SelectorExpr)
			if !ok {
				return true
			}
			fv, ok := info.Uses[inner.Sel].(*types.Var)
			if !ok || !fv.IsField() || !strings.HasSuffix(fv.Type().String(), "fs_db.Store") {
				return true
			}
			n++
			// decorated(e): e is recv.ctxFn(ctx) — the decorator field is a func(context.Context) context.Context,
			// whatever its type is called
			decorated := func(e ast.Expr) bool {
				ac, ok := ast.Unparen(e).(*ast.CallExpr)
				if !ok || len(ac.Args) != 1 || objOf(info, ac.Args[0]) != ctxParam {
					return false
				}
				as, ok := ac.Fun.(*ast.SelectorExpr)
				if !ok {
					return false
				}
				f2, ok := info.Uses[as.Sel].(*types.Var)
				if !ok || !f2.IsField() {
					return false
				}
				sg, ok := f2.Type().Underlying().(*types.Signature)
				return ok && sg.Params().Len() == 1 && sg.Results().Len() == 1 &&
					strings.HasSuffix(sg.Params().At(0).Type().String(), "context.Context") && strings.HasSuffix(sg.Results().At(0).Type().String(), "context.Context")
			}
			good := false
			if len(c.Args) > 0 {
				good = decorated(c.Args[0])
				// `ctx = t.ctxFn(ctx)` once at the top, then the plain variable: every definition that reaches the
				// call is a decoration and one of them is passed on every path
				if o := objOf(info, c.Args[0]); !good && o != nil {
					flat := p.FlatOf(fi)
					if at := flat.NodeContaining(c); at >= 0 {
						defs := flat.ReachingDefs(at, o)
						nodes := map[int]bool{}
						all := len(defs) > 0
						for _, d := range defs {
							nodes[d.Node] = true
							if d.Rhs == nil || !decorated(d.Rhs) {
								all = false
							}
						}
						good = all && flat.MustPrecede(nodes, at)
					}
				}
			}
			r.Check(good, rule, k+"#ctxFn", p.pos(c), "passes t.ctxFn(ctx)", "the store call does not receive ctxFn(ctx): the operation runs outside the transaction")
			return true
		})
	}
	r.Floor(rule, "tx-store-methods", n, 7)
	_ = root
	// (2) the context decorator of both clients: whatever form it has (a method of the handle, a function returning
	// a closure, a literal), the function handed to CreateTx and applied by Commit / Rollback attaches the handle's
	// id the way the server / the usecases read it
	for _, pk := range []string{"pkg/inline/db", pkgExtDB} {
		pkg := p.Pkg(pk)
		if pkg == nil {
			r.Undecided(rule, pk, "", "package not found")
			continue
		}
		info := pkg.TypesInfo
		// attaches: the expression is the attaching call with a transaction id as its value
		var attachesD func(e ast.Expr, depth int) (bool, string)
		attaches := func(e ast.Expr) (bool, string) { return attachesD(e, 0) }
		attachesD = func(e ast.Expr, depth int) (bool, string) {
			c, ok := ast.Unparen(e).(*ast.CallExpr)
			if !ok {
				return false, ""
			}
			isID := func(a ast.Expr) bool {
				switch x := ast.Unparen(a).(type) {
				case *ast.SelectorExpr:
					// a string field of the handle (id, txId, ...)
					if fv, ok := info.Uses[x.Sel].(*types.Var); ok && fv.IsField() {
						bt, isB := fv.Type().Underlying().(*types.Basic)
						return isB && bt.Kind() == types.String
					}
					return x.Sel.Name == "id"
				case *ast.Ident:
					o := objOf(info, x)
					if v, ok := o.(*types.Var); ok && !v.IsField() {
						bt, isB := v.Type().Underlying().(*types.Basic)
						return isB && bt.Kind() == types.String
					}
				}
				return false
			}
			if pk == "pkg/inline/db" {
				if p.callIs(pkg, c, "internal/model.StoreTxId") && len(c.Args) == 2 && isID(c.Args[1]) {
					return true, "model.StoreTxId(ctx, id)"
				}
				return false, "model.StoreTxId(ctx, id)"
			}
			if isFunc(info, c, "google.golang.org/grpc/metadata", "AppendToOutgoingContext") && len(c.Args) == 3 {
				key := exprObjKey(info, c.Args[1])
				return isID(c.Args[2]) && key == "internal/utils/grpc/interceptors/server.TxIdKey", "metadata key " + key
			}
			// a helper of the package that attaches the id it is given: withTxId(ctx, id)
			if h := p.staticCallee(pkg, c); h != nil && h.Pkg == pkg && h.Decl != nil && h.Decl.Body != nil && depth < 2 {
				idPassed := false
				for _, a := range c.Args {
					if isID(a) {
						idPassed = true
					}
				}
				var ret ast.Expr
				nret := 0
				walkNoLit(h.Decl.Body, func(x ast.Node) bool {
					if rs, ok := x.(*ast.ReturnStmt); ok && len(rs.Results) == 1 {
						ret = rs.Results[0]
						nret++
					}
					return true
				})
				if idPassed && nret == 1 {
					return attachesD(ret, depth+1)
				}
			}
			return false, "metadata.AppendToOutgoingContext(ctx, TxIdKey, id)"
		}
		// decoratorReturn resolves a function-valued expression to the expression its function returns
		var decoratorReturn func(e ast.Expr, depth int) ast.Expr
		singleReturn := func(body *ast.BlockStmt) ast.Expr {
			var res ast.Expr
			n := 0
			walkNoLit(body, func(x ast.Node) bool {
				if rs, ok := x.(*ast.ReturnStmt); ok && len(rs.Results) == 1 {
					res = rs.Results[0]
					n++
				}
				return true
			})
			if n == 1 {
				return res
			}
			return nil
		}
		decoratorReturn = func(e ast.Expr, depth int) ast.Expr {
			if depth > 3 {
				return nil
			}
			switch x := ast.Unparen(e).(type) {
			case *ast.FuncLit:
				return singleReturn(x.Body)
			case *ast.SelectorExpr:
				if fn, ok := info.Uses[x.Sel].(*types.Func); ok {
					if fi := p.Funcs[fkey(fn)]; fi != nil && fi.Decl.Body != nil {
						return singleReturn(fi.Decl.Body)
					}
				}
				// a function-valued field of the handle, set once where the handle is built:
				//   &tx{withTx: func(ctx) ctx { return metadata.AppendToOutgoingContext(ctx, TxIdKey, id) }}
				if fv, ok := info.Uses[x.Sel].(*types.Var); ok && fv.IsField() {
					if _, isFn := fv.Type().Underlying().(*types.Signature); isFn {
						var inits []ast.Expr
						for _, file := range pkg.Syntax {
							ast.Inspect(file, func(y ast.Node) bool {
								switch n := y.(type) {
								case *ast.KeyValueExpr:
									if id, ok := n.Key.(*ast.Ident); ok && info.Uses[id] == fv {
										inits = append(inits, n.Value)
									}
								case *ast.AssignStmt:
									for i, l := range n.Lhs {
										if sel, ok := l.(*ast.SelectorExpr); ok && info.Uses[sel.Sel] == fv && len(n.Lhs) == len(n.Rhs) {
											inits = append(inits, n.Rhs[i])
										}
									}
								}
								return true
							})
						}
						if len(inits) == 1 {
							return decoratorReturn(inits[0], depth+1)
						}
					}
				}
			case *ast.Ident:
				if fn, ok := info.Uses[x].(*types.Func); ok {
					if fi := p.Funcs[fkey(fn)]; fi != nil && fi.Decl.Body != nil {
						return singleReturn(fi.Decl.Body)
					}
				}
				// a local variable holding the decorator: inTx := func(ctx) ctx {...}
				if v, ok := info.Uses[x].(*types.Var); ok && !v.IsField() {
					for _, f := range pkg.Syntax {
						if f.Pos() <= v.Pos() && v.Pos() <= f.End() {
							if d := singleDef(info, f, v); d != nil {
								return decoratorReturn(d, depth+1)
							}
						}
					}
				}
			case *ast.CallExpr:
				// a function that builds the decorator: txCtx(id) returning func(ctx) ctx
				if callee := p.staticCallee(pkg, x); callee != nil && callee.Decl.Body != nil {
					if ret := singleReturn(callee.Decl.Body); ret != nil {
						return decoratorReturn(ret, depth+1)
					}
				}
			}
			return nil
		}
		bk := "(*" + pk + ".db).Begin"
		if b := p.Func(bk); b != nil {
			ok, what := false, ""
			ast.Inspect(b.Decl.Body, func(x ast.Node) bool {
				if c, isC := x.(*ast.CallExpr); isC && p.callIs(b.Pkg, c, "fs_db.CreateTx") && len(c.Args) == 3 {
					if ret := decoratorReturn(c.Args[2], 0); ret != nil {
						ok, what = attaches(ret)
					}
				}
				return true
			})
			r.Check(ok, rule, bk+"#ctxFn", p.pos(b.Decl), "the decorator handed to CreateTx attaches the handle's id: "+what, "Begin does not hand CreateTx a context decorator that attaches the transaction id the way the server/usecases read it ("+what+")")
		} else {
			r.Undecided(rule, bk, "", "not found")
		}
		for _, m := range []string{"Commit", "Rollback"} {
			mk := "(*" + pk + ".tx)." + m
			mf := p.Func(mk)
			if mf == nil {
				r.Undecided(rule, mk, "", "not found")
				continue
			}
			ok := false
			ast.Inspect(mf.Decl.Body, func(x ast.Node) bool {
				if c, isC := x.(*ast.CallExpr); isC && len(c.Args) >= 1 {
					if ac, isA := ast.Unparen(c.Args[0]).(*ast.CallExpr); isA && len(ac.Args) >= 1 {
						if ret := decoratorReturn(ac.Fun, 0); ret != nil {
							if a, _ := attaches(ret); a {
								ok = true
							}
						}
						// ... or the attaching helper called directly with the handle's id: withTxId(ctx, t.id)
						if a, _ := attaches(ac); a && len(ac.Args) > 1 {
							ok = true
						}
					}
				}
				return true
			})
			r.Check(ok, rule, mk+"#ctx", p.pos(mf.Decl), m+" applies the id-attaching decorator to its context", m+" does not apply the id-attaching decorator to its context: it acts on no transaction")
		}
	}
	// (3) interceptors read the constant and store with StoreTxId; installed in app.New
	for _, ik := range []string{"internal/utils/grpc/interceptors/server.ContextInterceptor", "internal/utils/grpc/interceptors/server.ContextStreamInterceptor"} {
		fi := p.Func(ik)
		if fi == nil {
			r.Undecided(rule, ik, "", "interceptor not found")
			continue
		}
		// directly or in a helper of the interceptor package
		readsKey := callPred{name: "md.Get(TxIdKey)", fn: func(pkg *packages.Package, c *ast.CallExpr) bool {
			sel, ok := c.Fun.(*ast.SelectorExpr)
			return ok && sel.Sel.Name == "Get" && len(c.Args) == 1 &&
				exprObjKey(pkg.TypesInfo, c.Args[0]) == "internal/utils/grpc/interceptors/server.TxIdKey"
		}}
		reads := p.funcCalls(fi, readsKey, false)
		stores := p.funcCalls(fi, p.keysPred("internal/model.StoreTxId"), false)
		r.Check(reads && stores, rule, ik, p.pos(fi.Decl), "reads md[TxIdKey], stores with model.StoreTxId", "interceptor does not move the metadata transaction id into the context")
	}
	if an := p.Func("internal/app.New"); an != nil {
		info := an.Pkg.TypesInfo
		un, st := false, false
		// the server may be built in New itself or in a helper of the package
		var bodies []ast.Node
		for _, k := range sortedFuncKeys(p) {
			if f2 := p.Funcs[k]; f2.Pkg == an.Pkg && f2.Decl.Body != nil {
				bodies = append(bodies, f2.Decl.Body)
			}
		}
		scan := func(x ast.Node) bool {
			if c, ok := x.(*ast.CallExpr); ok {
				for _, a := range c.Args {
					k := exprObjKey(info, a)
					if isFunc(info, c, "google.golang.org/grpc", "ChainUnaryInterceptor") || isFunc(info, c, "google.golang.org/grpc", "UnaryInterceptor") {
						if k == "internal/utils/grpc/interceptors/server.ContextInterceptor" {
							un = true
						}
					}
					if isFunc(info, c, "google.golang.org/grpc", "ChainStreamInterceptor") || isFunc(info, c, "google.golang.org/grpc", "StreamInterceptor") {
						if k == "internal/utils/grpc/interceptors/server.ContextStreamInterceptor" {
							st = true
						}
					}
				}
			}
			return true
		}
		for _, b := range bodies {
			ast.Inspect(b, scan)
		}
		r.Check(un, rule, "internal/app.New#unary-interceptor", p.pos(an.Decl), "ContextInterceptor installed", "the unary context interceptor is not installed: unary calls lose their transaction")
		r.Check(st, rule, "internal/app.New#stream-interceptor", p.pos(an.Decl), "ContextStreamInterceptor installed", "the stream context interceptor is not installed: SetFile/GetFile lose their transaction")
	} else {
		r.Undecided(rule, "internal/app.New", "", "not found")
	}
	// (4) same context key type on both ends
	st, gt := p.Func("internal/model.StoreTxId"), p.Func("internal/model.GetTxId")
	if st != nil && gt != nil {
		// the type of the key expression handed to context.WithValue / ctx.Value (a literal of the key type, or a
		// package-level variable holding one)
		keyType := func(fi *FuncInfo) string {
			res := ""
			// (in the function itself or in a lookup helper of the package it calls; a typed constant key is the
			// type together with its value)
			for _, body := range p.deepBodies(fi) {
				ast.Inspect(body, func(x ast.Node) bool { return keyVisit(fi, x, &res) })
			}
			return res
		}
		_ = func(fi *FuncInfo) string {
			res := ""
			ast.Inspect(fi.Decl.Body, func(x ast.Node) bool {
				c, ok := x.(*ast.CallExpr)
				if !ok || res != "" {
					return true
				}
				var keyArg ast.Expr
				if isFunc(fi.Pkg.TypesInfo, c, "context", "WithValue") && len(c.Args) == 3 {
					keyArg = c.Args[1]
				} else if sel, ok := c.Fun.(*ast.SelectorExpr); ok && sel.Sel.Name == "Value" && len(c.Args) == 1 {
					keyArg = c.Args[0]
				}
				if keyArg != nil {
					if tv, ok := fi.Pkg.TypesInfo.Types[keyArg]; ok {
						res = tv.Type.String()
					}
				}
				return true
			})
			return res
		}
		a, b := keyType(st), keyType(gt)
		r.Check(a != "" && a == b, rule, "internal/model#ctx-key", p.pos(st.Decl), "StoreTxId and GetTxId use "+shorten(a), "StoreTxId and GetTxId use different context keys ("+shorten(a)+" vs "+shorten(b)+")")
	}
	// (5) usecases read the id with GetTxId from their own ctx
	for _, k := range []string{"(*internal/usecase/store.UseCase).Set", "(*internal/usecase/store.UseCase).Get", "(*internal/usecase/store.UseCase).GetKeys",
		"(*internal/usecase/store.UseCase).Delete", "(*internal/usecase/transaction.UseCase).Commit", "(*internal/usecase/transaction.UseCase).Rollback"} {
		fi := p.Func(k)
		if fi == nil {
			r.Undecided(rule, k, "", "not found")
			continue
		}
		info := fi.Pkg.TypesInfo
		var ctxParam types.Object
		if nm := fi.Decl.Type.Params.List[0].Names; len(nm) > 0 {
			ctxParam = info.Defs[nm[0]]
		}
		// in the method itself or in a helper of the package that is handed the method's context
		getsID := p.newMustUse("GetTxId(ctx)", func(hfi *FuncInfo, c *ast.CallExpr, match func(ast.Expr) bool) bool {
			return p.callIs(hfi.Pkg, c, "internal/model.GetTxId") && len(c.Args) == 1 && match(c.Args[0])
		})
		getsID.may = true
		ok := false
		ast.Inspect(fi.Decl.Body, func(x ast.Node) bool {
			if c, isC := x.(*ast.CallExpr); isC && getsID.CallUses(fi, c, func(e ast.Expr) bool { return objOf(info, e) == ctxParam }) {
				ok = true
			}
			return true
		})
		r.Check(ok, rule, k+"#GetTxId", p.pos(fi.Decl), "reads model.GetTxId(ctx)", "the usecase does not take the transaction id from its context")
	}
}

// isGrpcSource reports whether the call yields an error that originates in the transport:
// methods of the generated client / streams, of the stream writer / reader helpers, io.Copy.
func isGrpcSource(p *Prog, fi *FuncInfo, c *ast.CallExpr) bool {
	info := fi.Pkg.TypesInfo
	if isFunc(info, c, "io", "Copy") || isFunc(info, c, "io", "ReadAll") || isFunc(info, c, "io", "CopyBuffer") {
		return true
	}
	sel, ok := ast.Unparen(c.Fun).(*ast.SelectorExpr)
	if !ok {
		return false
	}
	fn, ok := info.Uses[sel.Sel].(*types.Func)
	if !ok {
		return false
	}
	sig := fn.Type().(*types.Signature)
	if sig.Recv() == nil {
		return false
	}
	rt := sig.Recv().Type().String()
	if tv, ok := info.Types[sel.X]; ok {
		rt += " " + tv.Type.String()
	}
	for _, s := range []string{"internal/proto.", "google.golang.org/grpc.", "internal/utils/grpc/streamwriter.", "internal/utils/grpc/streamreader."} {
		if strings.Contains(rt, s) {
			return true
		}
	}
	// a narrower interface of the package that the generated client satisfies (txRPC)
	return p.isStoreClientIface(sig.Recv().Type())
}

func c11ClientFlows(p *Prog, r *Report) {
	var fns []*FuncInfo
	for _, fi := range p.Funcs {
		if shortPath(fi.Pkg.PkgPath) == pkgExtDB && fi.Decl.Body != nil {
			fns = append(fns, fi)
		}
	}
	sort.Slice(fns, func(i, j int) bool { return fns[i].Key < fns[j].Key })
	nSources := 0
	opts := flowOpts{Tolerated: []string{"is:io.EOF"}, Class: true, Through: []string{kAdClientErr}, Require: true}
	for _, fi := range fns {
		if fi.Obj.Name() == "New" {
			continue // grpc.NewClient: a dial/configuration error, not a status from the server
		}
		f := p.FlatOf(fi)
		idx := map[string]int{}
		// the messages of a stream received through an iterator of the module (for chunk, err := range Chunks(stream)):
		// the error it yields is the error of Recv
		for _, rs := range rangeLoops(fi.Decl.Body) {
			ic, ok := ast.Unparen(rs.X).(*ast.CallExpr)
			if !ok || rs.Value == nil {
				continue
			}
			lit, _ := p.errIterator(fi.Pkg, ic)
			if lit == nil {
				continue
			}
			receives := false
			ast.Inspect(lit.Lit.Body, func(x ast.Node) bool {
				if c, ok := x.(*ast.CallExpr); ok {
					if sel, ok := ast.Unparen(c.Fun).(*ast.SelectorExpr); ok && sel.Sel.Name == "Recv" && p.staticCallee(lit.Pkg, c) == nil {
						receives = true
					}
				}
				return true
			})
			if eo := objOf(fi.Pkg.TypesInfo, rs.Value); receives && eo != nil && isErrorType(eo.Type()) {
				nSources++
				o2 := opts
				o2.Tolerated = nil
				f.RangeErrConsumed(r, "C11.d", fmt.Sprintf("%s#iterator/%s", fi.Key, types.ExprString(ic.Fun)), fi, rs, eo, o2)
			}
		}
		for _, n := range f.Nodes {
			if n.Ast == nil {
				continue
			}
			for _, c := range callsIn(n.Ast, false) {
				if !isGrpcSource(p, fi, c) {
					continue
				}
				bs := f.bindOf(n, c)
				if bs.Kind == "none" {
					continue
				}
				name := types.ExprString(c.Fun)
				idx[name]++
				cons := fmt.Sprintf("%s#%s/%d", fi.Key, name, idx[name])
				nSources++
				if bs.Kind == "arg" {
					// ClientError(x.Call()) directly
					wrapped := false
					ast.Inspect(n.Ast, func(x ast.Node) bool {
						if oc, ok := x.(*ast.CallExpr); ok && p.callIs(fi.Pkg, oc, kAdClientErr) && len(oc.Args) == 1 && ast.Unparen(oc.Args[0]) == c {
							wrapped = true
						}
						return true
					})
					if wrapped {
						// the adapter's result must itself be consumed: find the enclosing binding
						r.Hold("C11.d", cons, p.pos(c), "passed straight to ClientError")
						c11AdapterResultReturned(p, r, fi, f, n, cons)
						continue
					}
				}
				if c11ThroughSanitisingClient(p, fi, c) {
					// the client behind the field is a decorator of the module that converts the status itself
					o2 := opts
					o2.sanitised = true
					f.SiteConsumed(r, "C11.d", cons, fi, bs, o2)
					continue
				}
				f.SiteConsumed(r, "C11.d", cons, fi, bs, opts)
			}
		}
	}
	r.Floor("C11.d", "grpc-error-sources-in-external-client", nSources, 12)
	r.Analysed["c11d_sources"] = nSources
	// objects handed to the user
	for _, m := range []struct{ fn, what string }{{"(*" + pkgExtDB + ".db).Create", "File"}, {"(*" + pkgExtDB + ".db).GetReader", "ReadCloser"}} {
		fi := p.Func(m.fn)
		if fi == nil {
			r.Undecided("C11.d", m.fn, "", "not found")
			continue
		}
		c11HandedObject(p, r, fi, m.what)
	}
}

// c11AdapterResultReturned: `return ClientError(x.Close())` or `err = ClientError(..)` later returned.
func c11AdapterResultReturned(p *Prog, r *Report, fi *FuncInfo, f *Flat, n *GNode, cons string) {
	if _, ok := n.Ast.(*ast.ReturnStmt); ok {
		return
	}
	for _, c := range callsIn(n.Ast, false) {
		if p.callIs(fi.Pkg, c, kAdClientErr) {
			bs := f.bindOf(n, c)
			if bs.Kind == "assigned" {
				res := f.errorConsumed(fi, n.ID, bs.ErrVar, flowOpts{Class: true})
				r.Check(res.OK, "C11.d", cons+"/adapted-result", p.pos(c), "adapted error is returned", "adapted error is lost: "+res.Detail)
				return
			}
			if bs.Kind == "arg" {
				return // e.g. fmt.Errorf("...%w", ClientError(..)) inside a return: checked by the return's own flow
			}
			r.Viol("C11.d", cons+"/adapted-result", p.pos(c), "the adapted error is "+bs.Kind)
		}
	}
}

// concreteOf resolves the concrete named type of an expression handed out as an interface.
func concreteOf(p *Prog, fi *FuncInfo, e ast.Expr, depth int) types.Type {
	info := fi.Pkg.TypesInfo
	e = ast.Unparen(e)
	if c, ok := e.(*ast.CallExpr); ok {
		if isFunc(info, c, "io", "NopCloser") && len(c.Args) == 1 {
			return concreteOf(p, fi, c.Args[0], depth)
		}
	}
	if id, ok := e.(*ast.Ident); ok && depth < 3 {
		if o := objOf(info, id); o != nil {
			if _, isIface := o.Type().Underlying().(*types.Interface); isIface {
				if rhs := singleDefIn(info, fi.Decl.Body, o); rhs != nil {
					return concreteOf(p, fi, rhs, depth+1)
				}
			}
		}
	}
	if tv, ok := info.Types[e]; ok {
		return tv.Type
	}
	return nil
}

func c11HandedObject(p *Prog, r *Report, fi *FuncInfo, what string) {
	info := fi.Pkg.TypesInfo
	f := p.FlatOf(fi)
	sig := fi.Obj.Type().(*types.Signature)
	for _, id := range f.ReturnNodes() {
		isRet, nilErr := f.returnsNilError(id, sig)
		if !isRet || !nilErr {
			continue
		}
		rs := f.returnStmt(id)
		if rs == nil || len(rs.Results) != 2 {
			continue
		}
		t := concreteOf(p, fi, rs.Results[0], 0)
		cons := fi.Key + "#returned-" + what
		if t == nil {
			r.Undecided("C11.d", cons, p.pos(rs), "cannot resolve the concrete type handed to the user")
			continue
		}
		if _, isIface := t.Underlying().(*types.Interface); isIface {
			r.Undecided("C11.d", cons, p.pos(rs), "the object handed to the user has interface type "+shorten(t.String())+"; its constructor is not visible")
			continue
		}
		// methods of the concrete type
		ms := types.NewMethodSet(t)
		checked := 0
		for i := 0; i < ms.Len(); i++ {
			fn, ok := ms.At(i).Obj().(*types.Func)
			if !ok || !fn.Exported() {
				continue
			}
			res := fn.Type().(*types.Signature).Results()
			if res.Len() == 0 || !isErrorType(res.At(res.Len()-1).Type()) {
				continue
			}
			mk := fkey(fn)
			mfi := p.Funcs[mk]
			mcons := cons + "/" + shorten(t.String()) + "." + fn.Name()
			if mfi == nil {
				// promoted from a non-product type (e.g. embedded *os.File): nothing to sanitise
				continue
			}
			checked++
			if shortPath(mfi.Pkg.PkgPath) != pkgExtDB {
				// a helper type of another package returned raw: its errors are unconverted status errors
				hasSrc := false
				ast.Inspect(mfi.Decl.Body, func(x ast.Node) bool {
					if c, ok := x.(*ast.CallExpr); ok && isGrpcSource(p, mfi, c) {
						hasSrc = true
					}
					return true
				})
				if hasSrc {
					r.Viol("C11.d", mcons, p.pos(rs), fmt.Sprintf("%s hands the user a %s whose %s returns transport errors without adapter ClientError: errors.Is against the exported sentinels fails", fi.Key, shorten(t.String()), fn.Name()), p.pos(mfi.Decl))
					continue
				}
				r.Hold("C11.d", mcons, p.pos(mfi.Decl), "no transport error source")
				continue
			}
			// wrapper defined in the client package: every source inside must be sanitised
			mf := p.FlatOf(mfi)
			n := 0
			for _, gn := range mf.Nodes {
				if gn.Ast == nil {
					continue
				}
				for _, c := range callsIn(gn.Ast, false) {
					if !isGrpcSource(p, mfi, c) && !c11IsInnerIO(mfi, c) {
						continue
					}
					bs := mf.bindOf(gn, c)
					if bs.Kind == "none" {
						continue
					}
					n++
					scons := fmt.Sprintf("%s#%s/%d", mcons, types.ExprString(c.Fun), n)
					if bs.Kind == "arg" {
						wrapped := false
						ast.Inspect(gn.Ast, func(x ast.Node) bool {
							if oc, ok := x.(*ast.CallExpr); ok && p.callIs(mfi.Pkg, oc, kAdClientErr) && len(oc.Args) == 1 && ast.Unparen(oc.Args[0]) == c {
								wrapped = true
							}
							return true
						})
						if wrapped {
							r.Hold("C11.d", scons, p.pos(c), "passed straight to ClientError")
							c11AdapterResultReturned(p, r, mfi, mf, gn, scons)
							continue
						}
					}
					mf.SiteConsumed(r, "C11.d", scons, mfi, bs, flowOpts{Tolerated: []string{"is:io.EOF"}, Class: true, Through: []string{kAdClientErr}, Require: true})
				}
			}
		}
		if checked == 0 {
			r.Undecided("C11.d", cons, p.pos(rs), "the object handed to the user has no error-returning method the checker can see")
		}
		_ = info
	}
}

// c11IsInnerIO: a call of Read/Write/Close on a field of the wrapper (the wrapped transport object).
func c11IsInnerIO(fi *FuncInfo, c *ast.CallExpr) bool {
	sel, ok := ast.Unparen(c.Fun).(*ast.SelectorExpr)
	if !ok {
		return false
	}
	switch sel.Sel.Name {
	case "Read", "Write", "Close":
	default:
		return false
	}
	if inner, ok := sel.X.(*ast.SelectorExpr); ok {
		if fv, ok := fi.Pkg.TypesInfo.Uses[inner.Sel].(*types.Var); ok && fv.IsField() {
			return true
		}
	}
	return false
}

func c11Handlers(p *Prog, r *Report) {
	n := 0
	for _, k := range handlerKeys(p) {
		fi := p.Funcs[k]
		info := fi.Pkg.TypesInfo
		// helpers of the handler are spliced in: their returns are the handler's returns
		f := p.FlatInl(fi)
		// adapted: the expression is adapter Error(...) of a class-carrying value, or a variable whose every reaching
		// assignment is (nil assignments aside)
		var adapted func(node int, e ast.Expr, depth int) (bool, string)
		adapted = func(node int, e ast.Expr, depth int) (bool, string) {
			e = ast.Unparen(e)
			if isNilIdent(info, e) {
				return true, ""
			}
			if c, isCall := e.(*ast.CallExpr); isCall && p.callIs(fi.Pkg, c, kAdErr) {
				if len(c.Args) == 1 {
					// the adapted value, or - for a variable - every definition that reaches here (the results of the
					// spliced-in helpers included), must not be a wrap without %w
					var lossy func(node int, a ast.Expr, d int) bool
					lossy = func(node int, a ast.Expr, d int) bool {
						if ac, ok := ast.Unparen(a).(*ast.CallExpr); ok && isFunc(info, ac, "fmt", "Errorf") {
							return !strings.HasPrefix(valueKey(info, ac), "wrap:")
						}
						if o := objOf(info, a); o != nil && d < 4 {
							for _, df := range f.ReachingDefs(node, o) {
								if df.Rhs != nil && df.Node != node && lossy(df.Node, df.Rhs, d+1) {
									return true
								}
							}
						}
						return false
					}
					if lossy(node, c.Args[0], 0) {
						return false, "the handler wraps the usecase error without %w before adapting it: the class is lost on the wire"
					}
				}
				return true, ""
			}
			if o := objOf(info, e); o != nil && depth < 4 {
				defs := f.ReachingDefs(node, o)
				if len(defs) == 0 {
					return false, ""
				}
				for _, d := range defs {
					if d.Rhs == nil {
						return false, ""
					}
					if ok, why := adapted(d.Node, d.Rhs, depth+1); !ok {
						return false, why
					}
				}
				return true, ""
			}
			return false, ""
		}
		// one deferred conversion of the named error result, registered before every return:
		//   defer func() { if err != nil { err = errors.Error(err) } }()
		deferAdapter := -1
		if res := fi.Decl.Type.Results; res != nil && len(res.List) > 0 {
			lastFld := res.List[len(res.List)-1]
			if len(lastFld.Names) == 1 {
				named := info.Defs[lastFld.Names[0]]
				for _, nd := range f.Nodes {
					ds, ok := nd.Ast.(*ast.DeferStmt)
					if !ok || named == nil {
						continue
					}
					lit, ok := ds.Call.Fun.(*ast.FuncLit)
					if !ok || len(lit.Body.List) != 1 {
						continue
					}
					var assign *ast.AssignStmt
					switch st := lit.Body.List[0].(type) {
					case *ast.IfStmt:
						if x := isNilCompare(info, st.Cond); x != nil && objOf(info, x) == named && ast.Unparen(st.Cond).(*ast.BinaryExpr).Op == token.NEQ && len(st.Body.List) == 1 && st.Else == nil {
							assign, _ = st.Body.List[0].(*ast.AssignStmt)
						}
					case *ast.AssignStmt:
						assign = st
					}
					if assign != nil && len(assign.Lhs) == 1 && len(assign.Rhs) == 1 && objOf(info, assign.Lhs[0]) == named {
						if c, ok := ast.Unparen(assign.Rhs[0]).(*ast.CallExpr); ok && p.callIs(fi.Pkg, c, kAdErr) && len(c.Args) == 1 && objOf(info, c.Args[0]) == named {
							deferAdapter = nd.ID
						}
					}
				}
			}
		}
		i := 0
		for _, id := range f.ReturnNodes() {
			rs := f.returnStmt(id)
			if rs == nil || len(rs.Results) == 0 {
				continue
			}
			last := rs.Results[len(rs.Results)-1]
			if isNilIdent(info, last) {
				continue
			}
			if i == 0 {
				n++ // (the floor counts handlers with checked error returns: merging two returns into one is not a loss)
			}
			i++
			cons := fmt.Sprintf("%s#error-return/%d", k, i)
			if deferAdapter >= 0 && f.MustPrecede(map[int]bool{deferAdapter: true}, id) {
				// converted on the way out; the returned value must still carry its class
				okWrap := true
				if ac, ok := ast.Unparen(last).(*ast.CallExpr); ok && isFunc(info, ac, "fmt", "Errorf") && !strings.HasPrefix(valueKey(info, ac), "wrap:") {
					okWrap = false
				}
				r.Check(okWrap, "C11.e", cons, p.pos(last), "converted by the deferred adapter Error on the way out", "the handler wraps the usecase error without %w before adapting it: the class is lost on the wire")
				continue
			}
			good, why := adapted(id, last, 0)
			if why == "" {
				why = "handler returns an error that did not pass adapter Error: the client receives no typed detail"
			}
			r.Check(good, "C11.e", cons, p.pos(last), "adapter Error(...)", why)
		}
	}
	r.Floor("C11.e", "handlers-with-error-returns", n, 7)
}

func c11Framing(p *Prog, r *Report) {
	var sizes []string
	for _, k := range []string{"(*" + pkgExtDB + ".db).SetReader", "(*" + pkgExtDB + ".db).Create"} {
		fi := p.Func(k)
		if fi == nil {
			r.Undecided("C11.f", k, "", "not found")
			continue
		}
		_ = fi.Pkg.TypesInfo
		f := p.FlatInl(fi)
		// header send: a Send whose argument mentions the Header oneof
		hdr := f.Match(func(n *GNode) bool {
			for _, c := range callsIn(n.Ast, false) {
				if sel, ok := c.Fun.(*ast.SelectorExpr); ok && sel.Sel.Name == "Send" {
					if p.buildsType(fi.Pkg, c, "SetFileRequest_Header", 3) {
						return true
					}
				}
			}
			return false
		})
		nw := f.NodesMay(p.keysPred("internal/utils/grpc/streamwriter.New"))
		if len(nw) == 0 || len(hdr) == 0 {
			r.Viol("C11.f", k+"#header-first", p.pos(fi.Decl), fmt.Sprintf("%d header sends, %d writer constructions: the server expects the header message first", len(hdr), len(nw)))
			continue
		}
		ok := true
		for _, w := range nw {
			if !f.MustPrecedeNil(setOf(hdr), w) {
				ok = false
			}
		}
		r.Check(ok, "C11.f", k+"#header-first", p.pos(f.Nodes[hdr[0]].Ast), "header Send precedes the chunk writer", "chunks can be written before the header message")
		// and its error gates the writer
		for _, s := range f.CallSites() {
			_ = s
		}
	}
	// every chunk writer the client constructs (wherever in the package)
	for _, k := range sortedFuncKeys(p) {
		cf := p.Funcs[k]
		if shortPath(cf.Pkg.PkgPath) != pkgExtDB || cf.Decl.Body == nil {
			continue
		}
		ast.Inspect(cf.Decl.Body, func(x ast.Node) bool {
			if c, ok := x.(*ast.CallExpr); ok && p.callIs(cf.Pkg, c, "internal/utils/grpc/streamwriter.New") && len(c.Args) > 0 {
				sizes = append(sizes, valueKey(cf.Pkg.TypesInfo, c.Args[0]))
			}
			return true
		})
	}
	// server buffer
	if gf := p.Func("(*" + pkgDelivery + ".Service).GetFile"); gf != nil {
		info := gf.Pkg.TypesInfo
		// the handler with its helpers spliced in
		for _, gn := range p.FlatInl(gf).Nodes {
			if gn.Ast == nil {
				continue
			}
			for _, c := range callsIn(gn.Ast, false) {
				if id, ok := c.Fun.(*ast.Ident); ok && id.Name == "make" && len(c.Args) == 2 {
					sizes = append(sizes, valueKey(info, c.Args[1]))
				}
			}
		}
	}
	same := len(sizes) >= 2
	for _, s := range sizes {
		if s != sizes[0] {
			same = false
		}
	}
	val := ""
	if len(sizes) > 0 {
		if v, ok := constValOfKey(p, sizes[0]); ok {
			val = v
		}
	}
	pos := int64(0)
	if val != "" {
		if cv := constant.MakeFromLiteral(val, 5, 0); cv.Kind() == constant.Int {
			pos, _ = constant.Int64Val(cv)
		}
	}
	r.Check(same && pos > 0, "C11.f", "chunk-size", "", fmt.Sprintf("client writers and server reader use %v = %s", sizes, val), fmt.Sprintf("chunk sizes differ or are not a positive constant: %v", sizes))
}

// c11VerdictByFlag handles `verdict, found := details(..)`: the nodes in sw (the status-code path) are reachable
// only on the found = false edge, and on the found = true edge the verdict itself is returned.
func c11VerdictByFlag(p *Prog, f *Flat, fi *FuncInfo, site callSite, sw []int) (gated, returned, handled bool) {
	info := fi.Pkg.TypesInfo
	as, ok := f.Nodes[site.Node].Ast.(*ast.AssignStmt)
	if !ok || len(as.Lhs) != 2 || len(as.Rhs) != 1 || ast.Unparen(as.Rhs[0]) != site.Call {
		return false, false, false
	}
	verdict, flag := objOf(info, as.Lhs[0]), objOf(info, as.Lhs[1])
	if verdict == nil || flag == nil || !isErrorType(verdict.Type()) {
		return false, false, false
	}
	if b, ok := flag.Type().Underlying().(*types.Basic); !ok || b.Info()&types.IsBoolean == 0 {
		return false, false, false
	}
	// edges on which the flag is true
	var trueStarts, falseStarts []int
	for _, n := range f.Nodes {
		if !n.IsCond {
			continue
		}
		e := ast.Unparen(n.Ast.(ast.Expr))
		neg := false
		if u, ok := e.(*ast.UnaryExpr); ok && u.Op == token.NOT {
			e, neg = ast.Unparen(u.X), true
		}
		if objOf(info, e) != flag {
			continue
		}
		for _, ed := range n.Succs {
			isTrue := (ed.Label == 1) != neg
			if isTrue {
				trueStarts = append(trueStarts, ed.To)
			} else {
				falseStarts = append(falseStarts, ed.To)
			}
		}
	}
	if len(trueStarts) == 0 {
		return false, false, true // the flag is never tested: the status path is not gated by the verdict
	}
	fromTrue := f.Reach(trueStarts, nil, nil)
	gated = true
	for _, id := range sw {
		if fromTrue[id] {
			gated = false
		}
		// and not reachable without the test at all
		tests := map[int]bool{}
		for _, n := range f.Nodes {
			if n.IsCond && usesObj(info, n.Ast, flag) {
				tests[n.ID] = true
			}
		}
		if !f.MustPrecede(tests, id) {
			gated = false
		}
	}
	// on the found edge every return returns the verdict
	returned = true
	any := false
	for id := range fromTrue {
		if rs := f.returnStmt(id); rs != nil && len(rs.Results) == 1 {
			any = true
			if objOf(info, rs.Results[0]) != verdict {
				returned = false
			}
		}
	}
	return gated, returned && any, true
}

// recvTypeName: the name of the receiver's type (without pointer and type parameters).
func recvDeclTypeName(d *ast.FuncDecl) string {
	if d.Recv == nil || len(d.Recv.List) != 1 {
		return ""
	}
	t := d.Recv.List[0].Type
	for {
		switch x := t.(type) {
		case *ast.StarExpr:
			t = x.X
			continue
		case *ast.IndexExpr:
			t = x.X
			continue
		case *ast.IndexListExpr:
			t = x.X
			continue
		case *ast.ParenExpr:
			t = x.X
			continue
		}
		break
	}
	if id, ok := t.(*ast.Ident); ok {
		return id.Name
	}
	return ""
}

// keyVisit records the type (and constant value) of the key handed to context.WithValue / ctx.Value.
func keyVisit(fi *FuncInfo, x ast.Node, res *string) bool {
	c, ok := x.(*ast.CallExpr)
	if !ok || *res != "" {
		return true
	}
	var keyArg ast.Expr
	if isFunc(fi.Pkg.TypesInfo, c, "context", "WithValue") && len(c.Args) == 3 {
		keyArg = c.Args[1]
	} else if sel, ok := c.Fun.(*ast.SelectorExpr); ok && sel.Sel.Name == "Value" && len(c.Args) == 1 {
		if tv, ok := fi.Pkg.TypesInfo.Types[sel.X]; ok && strings.HasSuffix(tv.Type.String(), "context.Context") {
			keyArg = c.Args[0]
		}
	}
	if keyArg != nil {
		if tv, ok := fi.Pkg.TypesInfo.Types[keyArg]; ok {
			*res = tv.Type.String()
			if tv.Value != nil {
				*res += "=" + tv.Value.ExactString()
			}
		}
	}
	return true
}

// c11ThroughSanitisingClient: the call is an interface call whose concrete callees (by the constructor wiring) are all
// methods of the module that return only errors that already passed ClientError.
func c11ThroughSanitisingClient(p *Prog, fi *FuncInfo, c *ast.CallExpr) bool {
	keys := p.calleeKeys(fi.Pkg, c)
	if len(keys) < 2 {
		return false
	}
	n := 0
	for _, k := range keys[1:] {
		g := p.Func(k)
		if g == nil || g.Decl.Body == nil {
			// the generated client behind the decorator is reached through it only
			continue
		}
		if !c11Sanitising(p, g, 0) {
			return false
		}
		n++
	}
	if n == 0 {
		return false
	}
	// every concrete type stored in the field itself must be such a decorator: the undecorated client in the list
	// is acceptable only as the decorated one
	if sel, ok := ast.Unparen(c.Fun).(*ast.SelectorExpr); ok {
		if inner, ok := ast.Unparen(sel.X).(*ast.SelectorExpr); ok {
			if fv, ok := fi.Pkg.TypesInfo.Uses[inner.Sel].(*types.Var); ok && fv.IsField() {
				for _, t := range p.fieldTypes(fv) {
					obj, _, _ := types.LookupFieldOrMethod(t, true, nil, sel.Sel.Name)
					m, _ := obj.(*types.Func)
					if m == nil {
						return false
					}
					g := p.Func(fkey(m))
					if g == nil || g.Decl.Body == nil || !c11Sanitising(p, g, 0) {
						return false
					}
				}
				return true
			}
		}
	}
	return false
}

// c11Sanitising: every return of g hands back nil, ClientError(..) or the result of another such function as its error.
func c11Sanitising(p *Prog, g *FuncInfo, depth int) bool {
	if depth > 3 || g.Decl.Body == nil {
		return false
	}
	info := g.Pkg.TypesInfo
	sig := g.Sig()
	if sig.Results().Len() == 0 || !isErrorType(sig.Results().At(sig.Results().Len()-1).Type()) {
		return false
	}
	var okExpr func(e ast.Expr, seen map[types.Object]bool) bool
	okCall := func(c *ast.CallExpr) bool {
		if p.callIs(g.Pkg, c, kAdClientErr) {
			return true
		}
		if h := p.staticCallee(g.Pkg, c); h != nil && h.Key != g.Key {
			return c11Sanitising(p, h, depth+1)
		}
		return false
	}
	okExpr = func(e ast.Expr, seen map[types.Object]bool) bool {
		e = ast.Unparen(e)
		if tv, ok := info.Types[e]; ok && tv.IsNil() {
			return true
		}
		switch x := e.(type) {
		case *ast.CallExpr:
			return okCall(x)
		case *ast.Ident:
			o := objOf(info, x)
			if o == nil || seen[o] {
				return o != nil
			}
			seen[o] = true
			if isParamOf(info, g.Decl, o) {
				return false
			}
			defs := 0
			good := true
			ast.Inspect(g.Decl.Body, func(n ast.Node) bool {
				as, ok := n.(*ast.AssignStmt)
				if !ok {
					return true
				}
				for i, l := range as.Lhs {
					if id, ok := l.(*ast.Ident); ok && objOf(info, id) == o {
						defs++
						if len(as.Lhs) == len(as.Rhs) {
							good = good && okExpr(as.Rhs[i], seen)
						} else if cc, ok := ast.Unparen(as.Rhs[0]).(*ast.CallExpr); ok {
							good = good && okCall(cc)
						} else {
							good = false
						}
					}
				}
				return true
			})
			return good && defs > 0
		}
		return false
	}
	all := true
	nret := 0
	var walk func(n ast.Node) bool
	walk = func(n ast.Node) bool {
		switch x := n.(type) {
		case *ast.FuncLit:
			return false
		case *ast.ReturnStmt:
			nret++
			switch {
			case len(x.Results) == 0:
				all = false
			case len(x.Results) == 1 && sig.Results().Len() > 1:
				cc, ok := ast.Unparen(x.Results[0]).(*ast.CallExpr)
				all = all && ok && okCall(cc)
			default:
				all = all && okExpr(x.Results[len(x.Results)-1], map[types.Object]bool{})
			}
		}
		return true
	}
	ast.Inspect(g.Decl.Body, walk)
	return all && nret > 0
}

func isParamOf(info *types.Info, d *ast.FuncDecl, o types.Object) bool {
	for _, fld := range d.Type.Params.List {
		for _, nm := range fld.Names {
			if info.Defs[nm] == o {
				return true
			}
		}
	}
	return false
}
