package main

// C18 Snapshot lookup returns the last version before the snapshot point.
// Decided: the single-step decision table of the hand-rolled binary search (finite: three
// orderings x three orderings x last-or-not), the window updates, the empty cases, and the
// satellites (retention guard, mirror discipline). NOT decided: the induction over arrays of
// unbounded length (sortedness invariant, termination), i.e. the behaviour itself.

import (
	"fmt"
	"go/ast"
	"go/constant"
	"go/token"
	"go/types"
	"os"
	"strings"
)

func init() { register("C18", propC18) }

const kBinarySearch = "internal/model/core.binarySearch"

func propC18(p *Prog, r *Report) {
	r.Rule("C18.a", "single-step decision table of binarySearch: with n the probed index, for every ordering of arr[n].Seq and arr[n+1].Seq against the probe and for n last / not last, the loop body (evaluated abstractly; elements are touched only through comparisons) returns arr[n] iff arr[n] is before the probe and (n is last or arr[n+1] is not before it), continues left of n iff arr[n] is not before the probe, continues right of n otherwise; arr[n+1] is never evaluated when n is last (\"before\" is strict: a version stamped exactly at the probe is not before it)")
	r.Rule("C18.b", "window discipline: the probe index is len(arr)/2 (in range for every non-empty window), the left window is arr[:n] and the right window arr[n+1:] (both exclude n, so the window shrinks in every iteration), the loop runs while the window is non-empty and nil is returned after it")
	r.Rule("C18.c", "empty cases: LastBefore returns the zero version for a nil store, and the search result is dereferenced nil-safely (an empty mirror may be handled by a guard or by the search returning nil)")
	r.Rule("C18.d", "satellites: retention guard of the collector (C09.a) and list/array mirror discipline (C09.d)")
	r.NotDecided = []string{"the induction over arrays of unbounded length: that the mirror is sorted, that the step table composed over all iterations finds the last element before the probe, termination as a whole (a loop invariant over array contents needs a prover or execution)", "interleavings of append/pop/collect over histories"}
	r.Assume = []string{"the array mirror is sorted by Seq (appended in sequence order under the locks of C06.b)", "a snapshot point never equals a version's sequence number"}

	r.Rule("C18.e", "whoever replaces the search array carries its elements over: no copy into a slice made with length 0 in model/core")
	c18MirrorWritersCopy(p, r, "C18.e")
	fi := p.Func(kBinarySearch)
	if fi == nil {
		r.Undecided("C18.a", kBinarySearch, "", "binarySearch not found (a different search implementation is not analysed)")
		return
	}
	// the loop may sit in a function binarySearch only adapts (lastBeforeIndex(arr, seq) int: an index, -1 = none)
	c18Adapter, c18IndexResult = nil, false
	hasLoop := func(g *FuncInfo) bool {
		found := false
		ast.Inspect(g.Decl.Body, func(x ast.Node) bool {
			if _, ok := x.(*ast.ForStmt); ok {
				found = true
			}
			return !found
		})
		return found
	}
	if !hasLoop(fi) {
		ast.Inspect(fi.Decl.Body, func(x ast.Node) bool {
			if c, ok := x.(*ast.CallExpr); ok && c18Adapter == nil {
				if h := p.staticCallee(fi.Pkg, c); h != nil && h.Pkg == fi.Pkg && h.Decl.Body != nil && hasLoop(h) && h.Sig().Params().Len() == 2 {
					c18Adapter = fi
					fi = h
					if h.Sig().Results().Len() == 1 {
						if bt, isB := h.Sig().Results().At(0).Type().Underlying().(*types.Basic); isB && bt.Info()&types.IsInteger != 0 {
							c18IndexResult = true
						}
					}
				}
			}
			return true
		})
	}
	info := fi.Pkg.TypesInfo
	var arrObj, seqObj types.Object
	for _, fld := range fi.Decl.Type.Params.List {
		for _, nm := range fld.Names {
			o := info.Defs[nm]
			if _, isSl := o.Type().Underlying().(*types.Slice); isSl {
				arrObj = o
			} else {
				seqObj = o
			}
		}
	}
	var loop *ast.ForStmt
	ast.Inspect(fi.Decl.Body, func(x ast.Node) bool {
		if fs, ok := x.(*ast.ForStmt); ok && loop == nil {
			loop = fs
		}
		return true
	})
	// a search written as tail recursion: the function body is the step, a call of itself with a sub-window the next
	// round, the test for the empty window the loop condition
	isRec := false
	if loop == nil && arrObj != nil && seqObj != nil {
		ast.Inspect(fi.Decl.Body, func(x ast.Node) bool {
			if rs, ok := x.(*ast.ReturnStmt); ok && len(rs.Results) == 1 {
				if c, ok := ast.Unparen(rs.Results[0]).(*ast.CallExpr); ok && p.staticCallee(fi.Pkg, c) == fi {
					isRec = true
				}
			}
			return true
		})
	}
	if arrObj == nil || seqObj == nil || (!isRec && (loop == nil || loop.Cond == nil)) {
		r.Undecided("C18.a", kBinarySearch, p.pos(fi.Decl), "search loop over a slice parameter not found")
		return
	}
	stepBody := fi.Decl.Body
	var stepPos ast.Node = fi.Decl
	if !isRec {
		stepBody = loop.Body
		stepPos = loop
	}
	// probe index variable: assigned in the loop body from len(arr)/2
	var nObj types.Object
	var nDef ast.Expr
	ast.Inspect(stepBody, func(x ast.Node) bool {
		if as, ok := x.(*ast.AssignStmt); ok && len(as.Lhs) == len(as.Rhs) && nObj == nil {
			// (alone or in a parallel assignment with other hoisted values: mid, last := len(arr)/2, len(arr)-1;
			// the probe is the one computed by a division)
			for i := range as.Lhs {
				o := objOf(info, as.Lhs[i])
				if o == nil || nObj != nil {
					continue
				}
				bt, ok := o.Type().(*types.Basic)
				if !ok || bt.Info()&types.IsInteger == 0 {
					continue
				}
				divides := len(as.Lhs) == 1
				ast.Inspect(as.Rhs[i], func(y ast.Node) bool {
					if be, isB := y.(*ast.BinaryExpr); isB && (be.Op == token.QUO || be.Op == token.SHR) {
						divides = true
					}
					return true
				})
				if divides {
					nObj, nDef = o, as.Rhs[i]
				}
			}
		}
		return true
	})
	if nObj == nil {
		r.Undecided("C18.b", kBinarySearch+"#probe-index", p.pos(stepPos), "probe index assignment not found")
		return
	}
	// the window may be kept as a pair of indices (lo, hi) into the unchanged slice instead of re-slicing it
	if !isRec {
		if lo, hi, ok := indexWindow(info, loop); ok {
			c18IndexWindow(p, r, fi, loop, arrObj, seqObj, nObj, nDef, lo, hi)
			c18Tail(p, r, fi)
			return
		}
	}
	// C18.b: n = len(arr)/2 evaluated for L = 1..5 must be in [0, L-1]
	okN := true
	for L := int64(1); L <= 5; L++ {
		env := &Env{P: p, Pkg: fi.Pkg, Vars: map[types.Object]*Val{}}
		env.Hook = func(env *Env, e ast.Expr) (*Val, bool) {
			if c, ok := e.(*ast.CallExpr); ok && len(c.Args) == 1 {
				if id, ok := c.Fun.(*ast.Ident); ok && id.Name == "len" && objOf(info, c.Args[0]) == arrObj {
					return intVal(L), true
				}
			}
			return nil, false
		}
		v, err := env.Eval(nDef)
		if err != nil || v.C == nil {
			r.Undecided("C18.b", kBinarySearch+"#probe-index", p.pos(nDef), fmt.Sprintf("probe index not evaluable: %v", err))
			return
		}
		if s := v.C.ExactString(); s != fmt.Sprint(L/2) && s != fmt.Sprint((L-1)/2) {
			okN = false
		}
	}
	isMid := false
	if be, ok := ast.Unparen(nDef).(*ast.BinaryExpr); ok && (be.Op == token.QUO || be.Op == token.SHR) {
		isMid = true
	}
	r.Check(okN && isMid, "C18.b", kBinarySearch+"#probe-index", p.pos(nDef), "probe index is the middle of the window", "the probe index is not the middle of the current window (len(arr)/2): it can leave the window")
	// loop condition: runs while non-empty
	condOK := false
	if isRec {
		// the empty window answers "not found" at once, a non-empty one goes on to the probe
		condOK = true
		for _, L := range []int64{0, 1} {
			env := &Env{P: p, Pkg: fi.Pkg, Vars: map[types.Object]*Val{}}
			l := L
			env.Hook = func(env *Env, e ast.Expr) (*Val, bool) {
				if c, ok := e.(*ast.CallExpr); ok && len(c.Args) == 1 {
					if id, ok := c.Fun.(*ast.Ident); ok && id.Name == "len" {
						return intVal(l), true
					}
				}
				return nil, false
			}
			g := p.NewFlat(fi.Pkg, stepBody)
			visited, exit, err := g.WalkPath(env)
			stoppedAtNil := false
			if err == nil {
				if rs := g.returnStmt(exit); rs != nil && len(rs.Results) == 1 && isNilIdent(info, rs.Results[0]) {
					stoppedAtNil = true
				}
			}
			_ = visited
			if (L == 0) != stoppedAtNil {
				condOK = false
			}
		}
	}
	for _, L := range []int64{0, 1} {
		if isRec {
			break
		}
		env := &Env{P: p, Pkg: fi.Pkg, Vars: map[types.Object]*Val{}}
		l := L
		env.Hook = func(env *Env, e ast.Expr) (*Val, bool) {
			if c, ok := e.(*ast.CallExpr); ok && len(c.Args) == 1 {
				if id, ok := c.Fun.(*ast.Ident); ok && id.Name == "len" {
					return intVal(l), true
				}
			}
			return nil, false
		}
		v, err := env.Eval(loop.Cond)
		if err != nil || v.C == nil {
			condOK = false
			break
		}
		condOK = (v.C.ExactString() == "true") == (L > 0)
		if !condOK {
			break
		}
	}
	var condPos ast.Node = stepPos
	if !isRec {
		condPos = loop.Cond
	}
	r.Check(condOK, "C18.b", kBinarySearch+"#loop-condition", p.pos(condPos), "searches while the window is non-empty", "the search loop does not run exactly while the window is non-empty")
	// C18.a: step table
	body := p.NewFlat(fi.Pkg, stepBody)
	type row struct {
		AtN, AtN1 string
		Last      bool
		Action    string
	}
	var rows []row
	good := true
	detail := ""
	const probe = 5
	for _, a := range []int64{3, 5, 7} {
		for _, b := range []int64{3, 5, 7} {
			for _, last := range []bool{true, false} {
				if b < a {
					continue // the mirror is sorted: arr[n+1] is not before arr[n]
				}
				// the window is a value: positions [lo, hi) of the mirror. Re-slicing, derived slices (upper :=
				// arr[n+1:]), len and indexing are computed on it, so the step may be written with any locals.
				L := int64(5)
				if last {
					L = 1 // n = len/2 = 0 is the last index
				}
				win := func(lo, hi int64) *Val {
					return &Val{Tag: "window", Fields: map[string]*Val{"lo": intVal(lo), "hi": intVal(hi)}}
				}
				bounds := func(v *Val) (int64, int64, bool) {
					if v == nil || v.Tag != "window" {
						return 0, 0, false
					}
					lo, _ := constant.Int64Val(v.Fields["lo"].C)
					hi, _ := constant.Int64Val(v.Fields["hi"].C)
					return lo, hi, true
				}
				env := &Env{P: p, Pkg: fi.Pkg, Vars: map[types.Object]*Val{seqObj: intVal(probe), arrObj: win(0, L)}}
				elem := func(seq int64, tag string) *Val {
					return &Val{Tag: tag, Fields: map[string]*Val{"v": {Fields: map[string]*Val{"Seq": intVal(seq)}}}}
				}
				nPos := func() (int64, bool) {
					v := env.Vars[nObj]
					if v == nil || v.C == nil {
						return 0, false
					}
					return constant.Int64Val(v.C)
				}
				intOf := func(env *Env, e ast.Expr) int64 {
					v := env.eval(e)
					if v == nil || v.C == nil {
						env.fail(e, "bound that is not a number")
					}
					i, _ := constant.Int64Val(v.C)
					return i
				}
				touchedN1 := false
				env.Hook = func(env *Env, e ast.Expr) (*Val, bool) {
					if env.Pkg != fi.Pkg {
						return nil, false
					}
					switch x := e.(type) {
					case *ast.CallExpr:
						if id, ok := x.Fun.(*ast.Ident); ok && id.Name == "len" && len(x.Args) == 1 {
							if lo, hi, ok := bounds(env.eval(x.Args[0])); ok {
								return intVal(hi - lo), true
							}
						}
					case *ast.SliceExpr:
						lo, hi, ok := bounds(env.eval(x.X))
						if !ok || x.Max != nil {
							return nil, false
						}
						nlo, nhi := lo, hi
						if x.Low != nil {
							nlo = lo + intOf(env, x.Low)
						}
						if x.High != nil {
							nhi = lo + intOf(env, x.High)
						}
						if nlo < lo || nhi > hi || nlo > nhi {
							env.fail(e, "re-slice outside the window")
						}
						return win(nlo, nhi), true
					case *ast.IndexExpr:
						lo, hi, ok := bounds(env.eval(x.X))
						if !ok {
							return nil, false
						}
						pos := lo + intOf(env, x.Index)
						if pos < lo || pos >= hi {
							env.fail(e, "arr[n+1] while n is the last index")
						}
						n, okN := nPos()
						switch {
						case okN && pos == n:
							return &Val{Ptr: elem(a, "arr[n]")}, true
						case okN && pos == n+1:
							touchedN1 = true
							return &Val{Ptr: elem(b, "arr[n+1]")}, true
						}
						env.fail(e, "index other than n / n+1")
					}
					return nil, false
				}
				_, exit, err := body.WalkPath(env)
				action := ""
				if err != nil {
					action = "error: " + err.Error()
				} else {
					n, _ := nPos()
					if rs := body.returnStmt(exit); rs != nil && len(rs.Results) == 1 && isRec && func() bool {
						c, ok := ast.Unparen(rs.Results[0]).(*ast.CallExpr)
						return ok && p.staticCallee(fi.Pkg, c) == fi && len(c.Args) == 2
					}() {
						// the next round: the window the function calls itself with
						c := ast.Unparen(rs.Results[0]).(*ast.CallExpr)
						wv, werr := env.Eval(c.Args[0])
						if lo, hi, ok := bounds(wv); werr == nil && ok {
							switch {
							case lo == 0 && hi == n:
								action = "left of n"
							case lo == n+1 && hi == L:
								action = "right of n"
							default:
								action = fmt.Sprintf("window := [%d, %d) of [0, %d) with n = %d", lo, hi, L, n)
							}
						} else {
							action = "recursion with a window that is not a sub-slice"
						}
						if sv, serr := env.Eval(c.Args[1]); serr != nil || sv == nil || sv.C == nil || sv.C.ExactString() != fmt.Sprint(probe) {
							action = "recursion with another probe"
						}
					} else if rs := body.returnStmt(exit); rs != nil && len(rs.Results) == 1 {
						action = "return " + types.ExprString(rs.Results[0])
						if v, err := env.Eval(rs.Results[0]); err == nil && v != nil && v.Ptr != nil && v.Ptr.Tag == "arr[n]" {
							action = "return arr[n]"
						}
					} else if lo, hi, ok := bounds(env.Vars[arrObj]); ok {
						switch {
						case lo == 0 && hi == n:
							action = "left of n"
						case lo == n+1 && hi == L:
							action = "right of n"
						default:
							action = fmt.Sprintf("window := [%d, %d) of [0, %d) with n = %d", lo, hi, L, n)
						}
					}
				}
				_ = touchedN1
				ord := func(v int64) string {
					switch {
					case v < probe:
						return "before"
					case v == probe:
						return "equal"
					}
					return "after"
				}
				rows = append(rows, row{ord(a), ord(b), last, action})
				// "before" is strict: a version stamped exactly at the probe is not before it
				want := ""
				switch {
				case a >= probe:
					want = "left of n"
				case last || b >= probe:
					want = "return arr[n]"
				default:
					want = "right of n"
				}
				if action != want {
					good = false
					detail = fmt.Sprintf("arr[n] %s the probe, arr[n+1] %s the probe, n last=%v: the step does '%s', required '%s'", ord(a), ord(b), last, action, want)
				}
			}
		}
	}
	r.Tables["search_step_table"] = rows
	r.Check(good, "C18.a", kBinarySearch+"#step-table", p.pos(stepPos), fmt.Sprintf("%d rows agree with the specification of one search step", len(rows)), "a step of the snapshot lookup decides wrongly: "+detail)
	c18Tail(p, r, fi)
}

// c18Tail: the parts of C18 that do not depend on how the window is represented.
func c18Tail(p *Prog, r *Report, fi *FuncInfo) {
	info := fi.Pkg.TypesInfo
	// nil after the loop
	nilAfter := false
	if n := len(fi.Decl.Body.List); n > 0 {
		if rs, ok := fi.Decl.Body.List[n-1].(*ast.ReturnStmt); ok && len(rs.Results) == 1 && isNilIdent(info, rs.Results[0]) {
			nilAfter = true
		}
		// an index-returning search: a negative constant when the window is exhausted, and the adapter turns a
		// negative answer into nil and a position into that element
		if rs, ok := fi.Decl.Body.List[n-1].(*ast.ReturnStmt); ok && len(rs.Results) == 1 && c18IndexResult {
			if v, isC := constInt(info, rs.Results[0]); isC && v < 0 {
				nilAfter = c18AdapterMaps(p, fi)
			}
		}
	}
	// a recursive search: the empty window is answered with nil before anything else
	if !nilAfter && len(fi.Decl.Body.List) > 0 {
		if ifs, ok := fi.Decl.Body.List[0].(*ast.IfStmt); ok && ifs.Init == nil && len(ifs.Body.List) == 1 {
			if rs, ok := ifs.Body.List[0].(*ast.ReturnStmt); ok && len(rs.Results) == 1 && isNilIdent(info, rs.Results[0]) {
				env := &Env{P: p, Pkg: fi.Pkg, Vars: map[types.Object]*Val{}}
				env.Hook = func(env *Env, e ast.Expr) (*Val, bool) {
					if c, ok := e.(*ast.CallExpr); ok && len(c.Args) == 1 {
						if id, ok := c.Fun.(*ast.Ident); ok && id.Name == "len" {
							return intVal(0), true
						}
					}
					return nil, false
				}
				if v, err := env.Eval(ifs.Cond); err == nil && v != nil && v.C != nil && v.C.ExactString() == "true" {
					recursive := false
					ast.Inspect(fi.Decl.Body, func(x ast.Node) bool {
						if c, ok := x.(*ast.CallExpr); ok && p.staticCallee(fi.Pkg, c) == fi {
							recursive = true
						}
						return true
					})
					nilAfter = recursive
				}
			}
		}
	}
	r.Check(nilAfter, "C18.b", kBinarySearch+"#not-found", p.pos(fi.Decl), "nil when the window is exhausted", "the search does not return nil when no version is before the probe")
	// C18.c
	if lb := p.Func(kLastBefore); lb != nil {
		linfo := lb.Pkg.TypesInfo
		f := p.FlatOf(lb)
		var recv types.Object
		if len(lb.Decl.Recv.List[0].Names) == 1 {
			recv = linfo.Defs[lb.Decl.Recv.List[0].Names[0]]
		}
		okAll := true
		for _, cs := range []struct {
			nilRecv bool
			n       int64
		}{{true, 0}} {
			env := &Env{P: p, Pkg: lb.Pkg, Vars: map[types.Object]*Val{}}
			if cs.nilRecv {
				env.Vars[recv] = &Val{Nil: true}
			} else {
				env.Vars[recv] = &Val{Ptr: &Val{Fields: map[string]*Val{fileFields.Arr: {Tag: "arr"}}}}
			}
			env.Hook = func(env *Env, e ast.Expr) (*Val, bool) {
				if c, ok := e.(*ast.CallExpr); ok && len(c.Args) == 1 {
					if id, ok := c.Fun.(*ast.Ident); ok && id.Name == "len" {
						return intVal(cs.n), true
					}
				}
				return nil, false
			}
			_, exit, err := f.WalkPath(env)
			if err != nil {
				okAll = false
				continue
			}
			rs := f.returnStmt(exit)
			if rs == nil || len(rs.Results) != 1 {
				okAll = false
				continue
			}
			if cl, ok := ast.Unparen(rs.Results[0]).(*ast.CompositeLit); !ok || len(cl.Elts) != 0 {
				okAll = false
			}
		}
		// the search result goes through a nil-safe dereference
		nilSafe := false
		ast.Inspect(lb.Decl.Body, func(x ast.Node) bool {
			if c, ok := x.(*ast.CallExpr); ok && p.callIs(lb.Pkg, c, "internal/utils/ptr.Val") && len(c.Args) == 1 {
				if bc, ok := ast.Unparen(c.Args[0]).(*ast.CallExpr); ok && p.callIs(lb.Pkg, bc, kBinarySearch) {
					nilSafe = true
				}
			}
			return true
		})
		if !nilSafe {
			// or an unsuccessful search is tested for: with the search yielding nil, LastBefore (helpers inlined)
			// reaches a return of the zero version without dereferencing the result
			fin := p.FlatInlExcept(lb, kBinarySearch, fi.Key)
			env := &Env{P: p, Pkg: lb.Pkg, Vars: map[types.Object]*Val{}}
			env.Vars[recv] = &Val{Ptr: &Val{Fields: map[string]*Val{fileFields.Arr: {Tag: "arr"}}}}
			env.Hook = func(env *Env, e ast.Expr) (*Val, bool) {
				if c, ok := e.(*ast.CallExpr); ok {
					if id, ok := c.Fun.(*ast.Ident); ok && id.Name == "len" && len(c.Args) == 1 {
						return intVal(1), true
					}
					if p.callIs(env.Pkg, c, kBinarySearch) {
						return &Val{Nil: true}, true
					}
					// LastBefore may ask the index-returning search itself: no position
					if c18IndexResult && p.staticCallee(env.Pkg, c) == fi {
						return intVal(-1), true
					}
				}
				return nil, false
			}
			if _, exit, err := fin.WalkPath(env); err == nil {
				if rs := fin.returnStmt(exit); rs != nil && len(rs.Results) == 1 {
					if isZeroValueExpr(linfo, lb, rs.Results[0]) {
						nilSafe = true
					} else if v, verr := env.Eval(rs.Results[0]); verr == nil && v != nil && v.Fields != nil && len(v.Fields) == 0 && v.Complete {
						// a local that holds the zero version on this path (v, _ := ix.lastBefore(seq) with the helper
						// answering model.File{}, false)
						nilSafe = true
					}
				}
			} else if os.Getenv("FSDBCHECK_DEBUG") != "" {
				fmt.Fprintln(os.Stderr, "C18.c nil-search evaluation:", err)
			}
		}
		r.Check(okAll && nilSafe, "C18.c", kLastBefore+"#empty-cases", p.pos(lb.Decl), "zero version for nil store, empty mirror, nil search result", "LastBefore does not yield the zero (not-found) version for a nil store, an empty mirror or an unsuccessful search: it panics or returns a stale version")
	} else {
		r.Undecided("C18.c", kLastBefore, "", "LastBefore not found")
	}
	// satellites
	tmp := NewReport("C09", r.Tier, r.Seed)
	c09EqualityIsCare = true
	c09Guard(p, tmp)
	c09EqualityIsCare = false
	c09Mirror(p, tmp)
	for _, o := range tmp.Obls {
		o.Rule = "C18.d"
		r.add(o)
	}
	_ = strings.Join
}

func isNPlus1(info *types.Info, e ast.Expr, nObj types.Object) bool {
	be, ok := ast.Unparen(e).(*ast.BinaryExpr)
	if !ok || be.Op != token.ADD || objOf(info, be.X) != nObj {
		return false
	}
	v, ok := constInt(info, be.Y)
	return ok && v == 1
}

// indexWindow recognises a search loop whose window is a pair of integer variables: for lo < hi { ... }.
func indexWindow(info *types.Info, loop *ast.ForStmt) (lo, hi types.Object, ok bool) {
	be, isB := ast.Unparen(loop.Cond).(*ast.BinaryExpr)
	if !isB {
		return nil, nil, false
	}
	isInt := func(o types.Object) bool {
		if o == nil {
			return false
		}
		bt, ok := o.Type().Underlying().(*types.Basic)
		return ok && bt.Info()&types.IsInteger != 0
	}
	a, b := objOf(info, be.X), objOf(info, be.Y)
	if !isInt(a) || !isInt(b) {
		return nil, nil, false
	}
	switch be.Op {
	case token.LSS, token.NEQ:
		return a, b, true
	case token.GTR:
		return b, a, true
	}
	return nil, nil, false
}

// c18IndexWindow decides C18.a/b for a search that keeps its window as indices [lo, hi) into the slice: loop
// condition, probe position and the single-step decision table are evaluated over small windows exactly as for the
// re-slicing form; a step is read off the new values of lo and hi.
func c18IndexWindow(p *Prog, r *Report, fi *FuncInfo, loop *ast.ForStmt, arrObj, seqObj, nObj types.Object, nDef ast.Expr, loObj, hiObj types.Object) {
	info := fi.Pkg.TypesInfo
	// probe position: inside the window and in its middle, for every window up to size 5
	okN := true
	for lo := int64(0); lo <= 2; lo++ {
		for size := int64(1); size <= 5; size++ {
			hi := lo + size
			env := &Env{P: p, Pkg: fi.Pkg, Vars: map[types.Object]*Val{loObj: intVal(lo), hiObj: intVal(hi)}}
			v, err := env.Eval(nDef)
			if err != nil || v.C == nil {
				r.Undecided("C18.b", kBinarySearch+"#probe-index", p.pos(nDef), fmt.Sprintf("probe index not evaluable: %v", err))
				return
			}
			if sv := v.C.ExactString(); sv != fmt.Sprint(lo+size/2) && sv != fmt.Sprint(lo+(size-1)/2) {
				okN = false
			}
		}
	}
	r.Check(okN, "C18.b", kBinarySearch+"#probe-index", p.pos(nDef), "probe index is the middle of the window", "the probe index is not the middle of the current window [lo, hi): it can leave the window")
	condOK := true
	for _, w := range [][2]int64{{0, 0}, {0, 1}, {2, 2}, {2, 5}} {
		env := &Env{P: p, Pkg: fi.Pkg, Vars: map[types.Object]*Val{loObj: intVal(w[0]), hiObj: intVal(w[1])}}
		v, err := env.Eval(loop.Cond)
		if err != nil || v.C == nil || (v.C.ExactString() == "true") != (w[0] < w[1]) {
			condOK = false
		}
	}
	r.Check(condOK, "C18.b", kBinarySearch+"#loop-condition", p.pos(loop.Cond), "searches while the window is non-empty", "the search loop does not run exactly while the window is non-empty")
	// initial window: the whole slice
	body := p.NewFlat(fi.Pkg, loop.Body)
	type row struct {
		AtN, AtN1 string
		Last      bool
		Action    string
	}
	var rows []row
	good := true
	detail := ""
	const probe = 5
	for _, a := range []int64{3, 5, 7} {
		for _, b := range []int64{3, 5, 7} {
			for _, last := range []bool{true, false} {
				if b < a {
					continue
				}
				lo, hi := int64(2), int64(7) // mid = 4, not the last index of the window
				if last {
					lo, hi = 4, 5 // mid = 4 = hi-1
				}
				const mid = 4
				env := &Env{P: p, Pkg: fi.Pkg, Vars: map[types.Object]*Val{seqObj: intVal(probe), loObj: intVal(lo), hiObj: intVal(hi)}}
				elem := func(seq int64, tag string) *Val {
					return &Val{Tag: tag, Fields: map[string]*Val{"v": {Fields: map[string]*Val{"Seq": intVal(seq)}}}}
				}
				env.Hook = func(env *Env, e ast.Expr) (*Val, bool) {
					if env.Pkg != fi.Pkg {
						return nil, false
					}
					if x, ok := e.(*ast.IndexExpr); ok && objOf(info, x.X) == arrObj {
						iv := env.eval(x.Index)
						if iv == nil || iv.C == nil {
							env.fail(e, "index not evaluable")
						}
						switch iv.C.ExactString() {
						case fmt.Sprint(mid):
							return &Val{Ptr: elem(a, "arr[n]")}, true
						case fmt.Sprint(mid + 1):
							if last {
								env.fail(e, "arr[n+1] while n is the last index of the window")
							}
							return &Val{Ptr: elem(b, "arr[n+1]")}, true
						}
						env.fail(e, "index other than n / n+1")
					}
					return nil, false
				}
				_, exit, err := body.WalkPath(env)
				action := ""
				if err != nil {
					action = "error: " + err.Error()
				} else {
					if rs := body.returnStmt(exit); rs != nil && len(rs.Results) == 1 {
						action = "return " + types.ExprString(rs.Results[0])
						if ix, ok := ast.Unparen(rs.Results[0]).(*ast.IndexExpr); ok && objOf(info, ix.X) == arrObj {
							if iv, err := env.Eval(ix.Index); err == nil && iv.C != nil && iv.C.ExactString() == fmt.Sprint(mid) {
								action = "return arr[n]"
							}
						}
						// the search answers with the position: return mid
						if c18IndexResult {
							if iv, err := env.Eval(rs.Results[0]); err == nil && iv != nil && iv.C != nil && iv.C.ExactString() == fmt.Sprint(mid) {
								action = "return arr[n]"
							}
						}
					} else {
						nl, nh := env.Vars[loObj], env.Vars[hiObj]
						switch {
						case nl != nil && nh != nil && nl.C != nil && nh.C != nil && nl.C.ExactString() == fmt.Sprint(lo) && nh.C.ExactString() == fmt.Sprint(mid):
							action = "left of n"
						case nl != nil && nh != nil && nl.C != nil && nh.C != nil && nl.C.ExactString() == fmt.Sprint(mid+1) && nh.C.ExactString() == fmt.Sprint(hi):
							action = "right of n"
						default:
							action = fmt.Sprintf("window := [%v, %v)", nl, nh)
						}
					}
				}
				ord := func(v int64) string {
					switch {
					case v < probe:
						return "before"
					case v == probe:
						return "equal"
					}
					return "after"
				}
				rows = append(rows, row{ord(a), ord(b), last, action})
				want := ""
				switch {
				case a >= probe:
					want = "left of n"
				case last || b >= probe:
					want = "return arr[n]"
				default:
					want = "right of n"
				}
				if action != want {
					good = false
					detail = fmt.Sprintf("arr[n] %s the probe, arr[n+1] %s the probe, n last=%v: the step does '%s', required '%s'", ord(a), ord(b), last, action, want)
				}
			}
		}
	}
	r.Tables["search_step_table"] = rows
	r.Check(good, "C18.a", kBinarySearch+"#step-table", p.pos(loop), fmt.Sprintf("%d rows agree with the specification of one search step", len(rows)), "a step of the snapshot lookup decides wrongly: "+detail)
	// the window starts as the whole slice
	initOK := false
	ast.Inspect(fi.Decl.Body, func(x ast.Node) bool {
		if as, ok := x.(*ast.AssignStmt); ok && as.Pos() < loop.Pos() && len(as.Lhs) == len(as.Rhs) {
			loInit, hiInit := false, false
			for i, l := range as.Lhs {
				if objOf(info, l) == loObj {
					if v, ok := constInt(info, as.Rhs[i]); ok && v == 0 {
						loInit = true
					}
				}
				if objOf(info, l) == hiObj {
					if c, ok := ast.Unparen(as.Rhs[i]).(*ast.CallExpr); ok && len(c.Args) == 1 && objOf(info, c.Args[0]) == arrObj {
						if id, ok := c.Fun.(*ast.Ident); ok && id.Name == "len" {
							hiInit = true
						}
					}
				}
			}
			if loInit && hiInit {
				initOK = true
			}
		}
		return true
	})
	r.Check(initOK, "C18.b", kBinarySearch+"#initial-window", p.pos(loop), "the search starts with the window [0, len(arr))", "the search does not start with the whole array as its window")
}

// isZeroValueExpr: T{}, *new(T), or a variable declared without a value and never assigned.
func isZeroValueExpr(info *types.Info, fi *FuncInfo, e ast.Expr) bool {
	switch x := ast.Unparen(e).(type) {
	case *ast.CompositeLit:
		return len(x.Elts) == 0
	case *ast.StarExpr:
		if c, ok := ast.Unparen(x.X).(*ast.CallExpr); ok {
			if id, ok := c.Fun.(*ast.Ident); ok && id.Name == "new" {
				return true
			}
		}
	case *ast.Ident:
		o := info.Uses[x]
		if o == nil {
			return false
		}
		declared, assigned := false, false
		for _, f := range fi.Pkg.Syntax {
			if f.Pos() > o.Pos() || o.Pos() > f.End() {
				continue
			}
			ast.Inspect(f, func(n ast.Node) bool {
				switch s := n.(type) {
				case *ast.ValueSpec:
					for _, nm := range s.Names {
						if info.Defs[nm] == o && len(s.Values) == 0 {
							declared = true
						}
					}
				case *ast.AssignStmt:
					for _, l := range s.Lhs {
						if objOf(info, l) == o {
							assigned = true
						}
					}
				case *ast.UnaryExpr:
					if s.Op == token.AND && objOf(info, s.X) == o {
						assigned = true
					}
				}
				return true
			})
		}
		return declared && !assigned
	}
	return false
}

// the search root of C18 when binarySearch only adapts another function (set by propC18 for its helpers)
var (
	c18Adapter     *FuncInfo
	c18IndexResult bool
)

// c18AdapterMaps: binarySearch, given the position answered by the search root, returns nil for a negative position
// and the element at the position otherwise.
func c18AdapterMaps(p *Prog, root *FuncInfo) bool {
	ad := c18Adapter
	if ad == nil {
		return true // no adapter: the callers use the position themselves (LastBefore is checked by C18.c)
	}
	info := ad.Pkg.TypesInfo
	var arrObj types.Object
	for _, o := range paramObjs(ad) {
		if o != nil {
			if _, isSl := o.Type().Underlying().(*types.Slice); isSl {
				arrObj = o
			}
		}
	}
	good := true
	for _, pos := range []int64{-1, 0, 2} {
		f := p.FlatOf(ad)
		env := &Env{P: p, Pkg: ad.Pkg, Vars: map[types.Object]*Val{}}
		env.Hook = func(env *Env, e ast.Expr) (*Val, bool) {
			if c, ok := e.(*ast.CallExpr); ok && p.staticCallee(env.Pkg, c) == root {
				return intVal(pos), true
			}
			return nil, false
		}
		_, exit, err := f.WalkPath(env)
		if err != nil {
			return false
		}
		rs := f.returnStmt(exit)
		if rs == nil || len(rs.Results) != 1 {
			return false
		}
		if pos < 0 {
			if !isNilIdent(info, rs.Results[0]) {
				good = false
			}
			continue
		}
		ix, ok := ast.Unparen(rs.Results[0]).(*ast.IndexExpr)
		if !ok || objOf(info, ix.X) != arrObj {
			good = false
			continue
		}
		if iv, err := env.Eval(ix.Index); err != nil || iv == nil || iv.C == nil || iv.C.ExactString() != fmt.Sprint(pos) {
			good = false
		}
	}
	return good
}
