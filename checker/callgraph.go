package main

// Call graph over the product packages: static callees resolved by go/types, interface
// calls by CHA restricted to product types (mocks are never loaded). Calls inside function
// literals are attributed to the enclosing declared function (conservative for reachability).

import (
	"go/ast"
	"go/types"
	"sort"

	"golang.org/x/tools/go/types/typeutil"
)

type CallGraph struct {
	Out map[string][]string
	In  map[string][]string
	// Async[caller][callee]: the callee is only started as / called inside a goroutine of the caller (go statement),
	// never on the caller's own stack: locks it takes are not nested in the caller's.
	Async map[string]map[string]bool
}

func (p *Prog) CallGraph() *CallGraph {
	if p.cg != nil {
		return p.cg
	}
	cg := &CallGraph{Out: map[string][]string{}, In: map[string][]string{}, Async: map[string]map[string]bool{}}
	for key, fi := range p.Funcs {
		if fi.Decl.Body == nil {
			continue
		}
		seen := map[string]bool{}
		ast.Inspect(fi.Decl.Body, func(x ast.Node) bool {
			switch c := x.(type) {
			case *ast.CallExpr:
				for _, k := range p.calleeKeys(fi.Pkg, c) {
					if !seen[k] {
						seen[k] = true
						cg.Out[key] = append(cg.Out[key], k)
					}
				}
			case *ast.SelectorExpr:
				// method values / function values: x.Method used as a value
				if fn, ok := fi.Pkg.TypesInfo.Uses[c.Sel].(*types.Func); ok {
					k := fkey(fn)
					if !seen[k] {
						seen[k] = true
						cg.Out[key] = append(cg.Out[key], k)
					}
					if sig, ok := fn.Type().(*types.Signature); ok && sig.Recv() != nil {
						if _, isIface := sig.Recv().Type().Underlying().(*types.Interface); isIface {
							for _, m := range p.implementers(fn.Origin()) {
								mk := fkey(m)
								if !seen[mk] {
									seen[mk] = true
									cg.Out[key] = append(cg.Out[key], mk)
								}
							}
						}
					}
				}
			case *ast.Ident:
				if fn, ok := fi.Pkg.TypesInfo.Uses[c].(*types.Func); ok {
					k := fkey(fn)
					if !seen[k] {
						seen[k] = true
						cg.Out[key] = append(cg.Out[key], k)
					}
				}
			}
			return true
		})
		sort.Strings(cg.Out[key])
		// callees that also occur outside go statements
		syncSeen := map[string]bool{}
		ast.Inspect(fi.Decl.Body, func(x ast.Node) bool {
			switch c := x.(type) {
			case *ast.GoStmt:
				return false
			case *ast.CallExpr:
				for _, k := range p.calleeKeys(fi.Pkg, c) {
					syncSeen[k] = true
				}
			case *ast.SelectorExpr:
				if fn, ok := fi.Pkg.TypesInfo.Uses[c.Sel].(*types.Func); ok {
					syncSeen[fkey(fn)] = true
					for _, m := range p.implementers(fn.Origin()) {
						syncSeen[fkey(m)] = true
					}
				}
			case *ast.Ident:
				if fn, ok := fi.Pkg.TypesInfo.Uses[c].(*types.Func); ok {
					syncSeen[fkey(fn)] = true
				}
			}
			return true
		})
		for _, k := range cg.Out[key] {
			if !syncSeen[k] {
				if cg.Async[key] == nil {
					cg.Async[key] = map[string]bool{}
				}
				cg.Async[key][k] = true
			}
		}
	}
	for k, outs := range cg.Out {
		for _, o := range outs {
			cg.In[o] = append(cg.In[o], k)
		}
	}
	for k := range cg.In {
		sort.Strings(cg.In[k])
	}
	p.cg = cg
	return cg
}

// Reachable returns the set of function keys reachable from roots (inclusive); skip prunes.
func (cg *CallGraph) Reachable(roots []string, skip func(string) bool) map[string]bool {
	seen := map[string]bool{}
	work := append([]string{}, roots...)
	for _, r := range roots {
		seen[r] = true
	}
	for len(work) > 0 {
		k := work[len(work)-1]
		work = work[:len(work)-1]
		for _, o := range cg.Out[k] {
			if seen[o] || (skip != nil && skip(o)) {
				continue
			}
			seen[o] = true
			work = append(work, o)
		}
	}
	return seen
}

// PathTo returns one call path from a root to target (for diagnostics).
func (cg *CallGraph) PathTo(roots []string, target string) []string {
	prev := map[string]string{}
	seen := map[string]bool{}
	var work []string
	for _, r := range roots {
		seen[r] = true
		work = append(work, r)
	}
	for len(work) > 0 {
		k := work[0]
		work = work[1:]
		if k == target {
			var path []string
			for x := k; x != ""; x = prev[x] {
				path = append([]string{x}, path...)
			}
			return path
		}
		for _, o := range cg.Out[k] {
			if !seen[o] {
				seen[o] = true
				prev[o] = k
				work = append(work, o)
			}
		}
	}
	return nil
}

// methodsOf returns the keys of the methods declared on the named type (pointer or value receiver).
func (p *Prog) methodsOf(pkgShort, typeName string) []string {
	var res []string
	for k, fi := range p.Funcs {
		if fi.Decl.Recv == nil || shortPath(fi.Pkg.PkgPath) != pkgShort {
			continue
		}
		sig := fi.Obj.Type().(*types.Signature)
		t := sig.Recv().Type()
		if pt, ok := t.(*types.Pointer); ok {
			t = pt.Elem()
		}
		if nt, ok := t.(*types.Named); ok && (nt.Obj().Name() == typeName || canonTypeName(pkgShort+"."+nt.Obj().Name()) == pkgShort+"."+typeName) {
			res = append(res, k)
		}
	}
	sort.Strings(res)
	return res
}

// fieldTypes resolves the concrete types stored in an interface-typed struct field by following
// the constructor wiring (composite literals and assignments; parameters are followed to the
// call sites of the constructor). nil = not resolvable (callers fall back to CHA).
func (p *Prog) fieldTypes(fv *types.Var) []types.Type {
	if p.fieldCache == nil {
		p.fieldCache = map[*types.Var][]types.Type{}
	}
	if r, ok := p.fieldCache[fv]; ok {
		return r
	}
	p.fieldCache[fv] = nil // cycle guard
	var res []types.Type
	okAll := true
	add := func(t types.Type) {
		for _, x := range res {
			if types.Identical(x, t) {
				return
			}
		}
		res = append(res, t)
	}
	var resolveExpr func(fi *FuncInfo, e ast.Expr, depth int)
	resolveExpr = func(fi *FuncInfo, e ast.Expr, depth int) {
		info := fi.Pkg.TypesInfo
		e = ast.Unparen(e)
		tv, ok := info.Types[e]
		if !ok {
			okAll = false
			return
		}
		if _, isIface := tv.Type.Underlying().(*types.Interface); !isIface {
			if tv.IsNil() {
				return
			}
			add(tv.Type)
			return
		}
		// interface-typed expression: another field (the value is handed on from one holder to the next)?
		if sel, isSel := e.(*ast.SelectorExpr); isSel {
			if ov, isV := info.Uses[sel.Sel].(*types.Var); isV && ov.IsField() && ov != fv {
				if ts := p.fieldTypes(ov); len(ts) > 0 {
					for _, t := range ts {
						add(t)
					}
					return
				}
			}
		}
		// a parameter of the enclosing function?
		if id, isId := e.(*ast.Ident); isId && depth < 4 {
			o := info.Uses[id]
			idx := -1
			i := 0
			for _, fld := range fi.Decl.Type.Params.List {
				for _, nm := range fld.Names {
					if info.Defs[nm] == o {
						idx = i
					}
					i++
				}
			}
			if idx >= 0 {
				found := false
				for _, caller := range p.Funcs {
					if caller.Decl.Body == nil {
						continue
					}
					ast.Inspect(caller.Decl.Body, func(x ast.Node) bool {
						if c, isC := x.(*ast.CallExpr); isC && idx < len(c.Args) {
							if fn, _ := typeutil.Callee(caller.Pkg.TypesInfo, c).(*types.Func); fn != nil && fkey(fn) == fi.Key {
								found = true
								resolveExpr(caller, c.Args[idx], depth+1)
							}
						}
						return true
					})
				}
				if !found {
					okAll = false
				}
				return
			}
		}
		okAll = false
	}
	for _, fi := range p.Funcs {
		if fi.Decl.Body == nil {
			continue
		}
		info := fi.Pkg.TypesInfo
		ast.Inspect(fi.Decl.Body, func(x ast.Node) bool {
			switch s := x.(type) {
			case *ast.CompositeLit:
				tv, ok := info.Types[s]
				if !ok {
					return true
				}
				t := tv.Type
				if pt, isP := t.(*types.Pointer); isP {
					t = pt.Elem()
				}
				st, ok := t.Underlying().(*types.Struct)
				if !ok {
					return true
				}
				fidx := -1
				for i := 0; i < st.NumFields(); i++ {
					if st.Field(i) == fv {
						fidx = i
					}
				}
				if fidx < 0 {
					return true
				}
				for i, el := range s.Elts {
					if kv, isKV := el.(*ast.KeyValueExpr); isKV {
						if id, isId := kv.Key.(*ast.Ident); isId && id.Name == fv.Name() {
							resolveExpr(fi, kv.Value, 0)
						}
					} else if i == fidx {
						resolveExpr(fi, el, 0)
					}
				}
			case *ast.AssignStmt:
				for i, l := range s.Lhs {
					if sel, isSel := l.(*ast.SelectorExpr); isSel && info.Uses[sel.Sel] == fv && i < len(s.Rhs) && len(s.Lhs) == len(s.Rhs) {
						resolveExpr(fi, s.Rhs[i], 0)
					}
				}
			}
			return true
		})
	}
	if !okAll || len(res) == 0 {
		res = nil
	}
	p.fieldCache[fv] = res
	return res
}
