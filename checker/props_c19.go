package main

// C19 Persisted version records round-trip and keep their format.

import (
	"fmt"
	"go/ast"
	"go/token"
	"go/types"
	"sort"
	"strings"
)

func init() { register("C19", propC19) }

const (
	kMarshal    = "internal/repository/file.marshalFile"
	kUnmarshal  = "internal/repository/file.unmarshalFile"
	kFileLen    = "internal/repository/file.fileLen"
	kFileSet    = "(*internal/repository/file.Repo).Set"
	kFileGetAll = "(*internal/repository/file.Repo).GetAll"
	kFileKey    = "(*internal/repository/file.Repo).key"
	kCFKey      = "(*internal/repository/content_file.Repo).key"
)

type layoutRow struct {
	Field string `json:"field"`
	Lo    int64  `json:"lo"`
	Hi    int64  `json:"hi"` // -1 = open ended
	Enc   string `json:"enc"`
	Pos   string `json:"pos"`
}

var goldenLayout = map[string]layoutRow{
	"Seq":       {Field: "Seq", Lo: 0, Hi: 8, Enc: "uint64-little-endian"},
	"TxId":      {Field: "TxId", Lo: 8, Hi: 24, Enc: "uuid-bytes"},
	"ContentId": {Field: "ContentId", Lo: 24, Hi: 40, Enc: "uuid-bytes"},
	"Key":       {Field: "Key", Lo: 40, Hi: -1, Enc: "raw"},
}

// sliceBounds folds the bounds of a slice expression through the type checker's constants.
func sliceBounds(info *types.Info, s *ast.SliceExpr) (lo, hi int64, ok bool) {
	lo, hi = 0, -1
	if s.Low != nil {
		v, k := constInt(info, s.Low)
		if !k {
			return 0, 0, false
		}
		lo = v
	}
	if s.High != nil {
		v, k := constInt(info, s.High)
		if !k {
			return 0, 0, false
		}
		hi = v
	}
	return lo, hi, true
}

// absSlice resolves a byte-slice expression to a window [lo:hi) of the record buffer root (hi = -1: open end),
// following re-slicing and single-definition locals (head := data[:40]; head[24:] is data[24:40]).
// rooted tells whether the expression is derived from root at all; ok whether all bounds are constants.
func absSlice(fi *FuncInfo, root types.Object, e ast.Expr, depth int) (lo, hi int64, rooted, ok bool) {
	info := fi.Pkg.TypesInfo
	if depth > 6 {
		return 0, 0, false, false
	}
	switch x := ast.Unparen(e).(type) {
	case *ast.Ident:
		o := objOf(info, x)
		if o == nil {
			return 0, 0, false, false
		}
		if o == root {
			return 0, -1, true, true
		}
		// single definition of a local
		var defs []ast.Expr
		ast.Inspect(fi.Decl.Body, func(n ast.Node) bool {
			if as, isAs := n.(*ast.AssignStmt); isAs && len(as.Lhs) == len(as.Rhs) {
				for i, l := range as.Lhs {
					if objOf(info, l) == o {
						defs = append(defs, as.Rhs[i])
					}
				}
			}
			if vs, isVs := n.(*ast.ValueSpec); isVs && len(vs.Names) == len(vs.Values) {
				for i, nm := range vs.Names {
					if info.Defs[nm] == o {
						defs = append(defs, vs.Values[i])
					}
				}
			}
			return true
		})
		if len(defs) != 1 {
			return 0, 0, false, false
		}
		return absSlice(fi, root, defs[0], depth+1)
	case *ast.SliceExpr:
		ilo, ihi, r, k := absSlice(fi, root, x.X, depth+1)
		if !r {
			return 0, 0, false, false
		}
		if !k {
			return 0, 0, true, false
		}
		lo, hi = ilo, ihi
		if x.Low != nil {
			v, c := constInt(info, x.Low)
			if !c {
				return 0, 0, true, false
			}
			lo = ilo + v
		}
		if x.High != nil {
			v, c := constInt(info, x.High)
			if !c {
				return 0, 0, true, false
			}
			hi = ilo + v
		}
		return lo, hi, true, true
	}
	return 0, 0, false, false
}

// fileFieldIn finds the field of model.File an expression is derived from, following
// single-assignment locals (txId, err := uuid.Parse(f.TxId)).
func fileFieldIn(fi *FuncInfo, e ast.Expr, depth int) string {
	info := fi.Pkg.TypesInfo
	field := ""
	ast.Inspect(e, func(n ast.Node) bool {
		if field != "" {
			return false
		}
		switch x := n.(type) {
		case *ast.SelectorExpr:
			if tv, ok := info.Types[x.X]; ok {
				t := tv.Type
				if pt, ok := t.(*types.Pointer); ok {
					t = pt.Elem()
				}
				if nt, ok := t.(*types.Named); ok && nt.Obj().Name() == "File" && nt.Obj().Pkg() != nil &&
					shortPath(nt.Obj().Pkg().Path()) == "internal/model" {
					field = x.Sel.Name
					return false
				}
			}
		case *ast.Ident:
			if depth > 3 {
				return true
			}
			o := info.Uses[x]
			if v, ok := o.(*types.Var); ok && !v.IsField() {
				// find its defining assignment in the function
				ast.Inspect(fi.Decl.Body, func(m ast.Node) bool {
					if as, ok := m.(*ast.AssignStmt); ok && as.Tok == token.DEFINE {
						for _, l := range as.Lhs {
							if id, ok := l.(*ast.Ident); ok && info.Defs[id] == o && len(as.Rhs) == 1 {
								if f := fileFieldIn(fi, as.Rhs[0], depth+1); f != "" {
									field = f
								}
							}
						}
					}
					return field == ""
				})
			}
		}
		return true
	})
	return field
}

// mentionsFileField: does the function body select the given field of a model.File value?
func mentionsFileField(fi *FuncInfo, field string) bool {
	found := false
	ast.Inspect(fi.Decl.Body, func(n ast.Node) bool {
		if sel, ok := n.(*ast.SelectorExpr); ok && sel.Sel.Name == field && fileFieldIn(fi, sel, 0) == field {
			found = true
		}
		return !found
	})
	return found
}

func byteOrderOf(info *types.Info, c *ast.CallExpr) (order, method string) {
	sel, ok := c.Fun.(*ast.SelectorExpr)
	if !ok {
		return "", ""
	}
	fn, _ := info.Uses[sel.Sel].(*types.Func)
	if fn == nil || fn.Pkg() == nil || fn.Pkg().Path() != "encoding/binary" {
		return "", ""
	}
	recv := fn.Type().(*types.Signature).Recv()
	if recv == nil {
		return "pkgfunc", fn.Name() // binary.PutUvarint, binary.Uvarint, binary.Write, ...
	}
	rt := recv.Type().String()
	switch {
	case strings.HasSuffix(rt, "littleEndian"):
		return "little-endian", fn.Name()
	case strings.HasSuffix(rt, "bigEndian"):
		return "big-endian", fn.Name()
	case strings.HasSuffix(rt, "nativeEndian"):
		return "native-endian", fn.Name()
	}
	// interface ByteOrder: find the concrete variable used
	if x, ok := sel.X.(*ast.SelectorExpr); ok {
		return strings.ToLower(x.Sel.Name), fn.Name()
	}
	return "unknown", fn.Name()
}

func propC19(p *Prog, r *Report) {
	r.Rule("C19.a", "layout tables: the (offset, length, encoding) table extracted from marshalFile equals the one extracted from unmarshalFile and the table in the property statement (8-byte little-endian sequence | 16-byte transaction id | 16-byte content id | raw key); bounds folded through go/types constants; fileLen = 40+len(Key); Set allocates exactly fileLen(f)")
	r.Rule("C19.b", "no panic on short input: for every abstract input length L in 0..41 (guards evaluated over L), a slice expression with constant bound B is reachable only if L >= B, and for L < 40 every reachable return yields ErrInvalidFileFormat; slice-to-array conversions have constant length 16; in marshalFile the length test dominates all writes")
	r.Rule("C19.c", "disjoint key spaces: the constant prefixes of the two Badger key builders are not prefixes of one another; GetAll scans with key(\"\") of the version-record builder")
	r.Rule("C19.d", "decode errors in GetAll are returned, not skipped (error-state dataflow)")
	r.NotDecided = []string{"uuid.Parse / UUID.String behaviour (trusted)", "Badger key iteration semantics (trusted)"}
	r.Assume = []string{"google/uuid: Parse∘String = id on canonical ids; encoding/binary.LittleEndian as documented"}

	mar, unm := p.Func(kMarshal), p.Func(kUnmarshal)
	if mar == nil || unm == nil {
		r.Undecided("C19.a", "anchors", "", "marshalFile/unmarshalFile not found in internal/repository/file")
		return
	}
	// the codec is interpreted abstractly (codec.go); where it uses something outside that vocabulary the
	// syntactic extraction below decides
	wt, wok, wwhy := codecTable(p, mar, "writer")
	if !wok || len(wt) == 0 {
		wt = c19WriterTable(p, r, mar)
		r.Note("writer layout by syntactic extraction (%s)", wwhy)
	}
	rt, rok, rwhy := codecTable(p, unm, "reader")
	if !rok || len(rt) == 0 {
		rt = c19ReaderTable(p, r, unm)
		r.Note("reader layout by syntactic extraction (%s)", rwhy)
	}
	r.Tables["writer_layout"] = wt
	r.Tables["reader_layout"] = rt
	r.Tables["golden_layout"] = goldenLayout
	for _, fld := range []string{"Seq", "TxId", "ContentId", "Key"} {
		g := goldenLayout[fld]
		for side, tab := range map[string]map[string]layoutRow{"writer": wt, "reader": rt} {
			fn := kMarshal
			if side == "reader" {
				fn = kUnmarshal
			}
			row, ok := tab[fld]
			cons := fn + "#" + fld
			if !ok {
				// a field the function never mentions is certainly not stored / restored; one it mentions in a form
				// the layout extraction does not follow (a cursor object, a loop over the ids) is not decided
				owner := mar
				if side == "reader" {
					owner = unm
				}
				if mentionsFileField(owner, fld) {
					r.Undecided("C19.a", cons, p.pos(owner.Decl), fmt.Sprintf("the %s side handles field %s in a form the layout extraction does not follow", side, fld))
				} else {
					r.Viol("C19.a", cons, p.pos(owner.Decl), fmt.Sprintf("%s side has no layout row for field %s", side, fld))
				}
				continue
			}
			if row.Enc == "unrecognised" {
				r.Undecided("C19.a", cons, row.Pos, "encoding idiom of this field is not one the checker knows")
				continue
			}
			if strings.HasPrefix(row.Enc, "other-binary:") {
				r.Viol("C19.a", cons, row.Pos, fmt.Sprintf("%s side encodes %s with encoding/binary.%s; the record format is %s", side, fld, strings.TrimPrefix(row.Enc, "other-binary:"), g.Enc))
				continue
			}
			ok = row.Lo == g.Lo && row.Hi == g.Hi && row.Enc == g.Enc
			r.Check(ok, "C19.a", cons, row.Pos,
				fmt.Sprintf("%s [%d:%d] %s", fld, row.Lo, row.Hi, row.Enc),
				fmt.Sprintf("%s side stores %s as [%d:%d] %s, the format is [%d:%d] %s", side, fld, row.Lo, row.Hi, row.Enc, g.Lo, g.Hi, g.Enc))
		}
	}
	for fld := range wt {
		if _, ok := goldenLayout[fld]; !ok {
			r.Viol("C19.a", kMarshal+"#"+fld, wt[fld].Pos, "writer stores a field the record format does not have")
		}
	}
	c19FileLen(p, r)
	c19Guards(p, r, mar, unm)
	c19Keys(p, r)
	c19GetAll(p, r)
	r.Rule("C19.g", "the decoder accepts what the encoder produces: unmarshalFile fails only for records shorter than the fixed header")
	c19RejectsOnlyShortRecords(p, r, "C19.g")
	r.Rule("C19.h", "GetAll decodes every record it read: no record is skipped")
	c19GetAllDecodesEverything(p, r, "C19.h")
	r.Rule("C19.f", "the bytes handed to the decoder are the bytes stored: in the Badger layer, key and value bytes of iterator items are copied before they leave the iteration (Badger recycles the buffers of iterator items)")
	c19IteratorCopies(p, r, "C19.f")
	r.Rule("C19.e", "independent decoding: the decoder assigns every field on every success path, or every call site decodes into a fresh record")
	c19DecodeTargetFresh(p, r, "C19.e")
}

func c19WriterTable(p *Prog, r *Report, mar *FuncInfo) map[string]layoutRow {
	info := mar.Pkg.TypesInfo
	tab := map[string]layoutRow{}
	var dataObj types.Object
	if ps := mar.Decl.Type.Params.List; len(ps) >= 2 {
		for _, fld := range ps {
			for _, nm := range fld.Names {
				if o := info.Defs[nm]; o != nil {
					if sl, ok := o.Type().Underlying().(*types.Slice); ok && types.Identical(sl.Elem(), types.Typ[types.Byte]) {
						dataObj = o
					}
				}
			}
		}
	}
	n := 0
	ast.Inspect(mar.Decl.Body, func(x ast.Node) bool {
		c, ok := x.(*ast.CallExpr)
		if !ok || len(c.Args) < 2 {
			return true
		}
		lo, hi, rooted, okb := absSlice(mar, dataObj, c.Args[0], 0)
		if !rooted || dataObj == nil {
			return true
		}
		if id, isId := ast.Unparen(c.Args[0]).(*ast.Ident); isId && objOf(info, id) == dataObj {
			// the whole buffer: a field write only for the fixed-width byte-order writers (they touch the first bytes)
			if order, m := byteOrderOf(info, c); order == "" || m != "PutUint64" {
				return true
			}
		}
		row := layoutRow{Lo: lo, Hi: hi, Pos: p.pos(c)}
		row.Field = fileFieldIn(mar, c.Args[1], 0)
		if !okb {
			row.Enc = "unrecognised"
		} else if id, ok := c.Fun.(*ast.Ident); ok && id.Name == "copy" {
			if _, isB := info.Uses[id].(*types.Builtin); isB {
				// uuid bytes or raw key: decided by the type of the source
				st := info.Types[c.Args[1]].Type
				if bt, ok := st.Underlying().(*types.Basic); ok && bt.Info()&types.IsString != 0 {
					row.Enc = "raw"
				} else if sl, ok := st.Underlying().(*types.Slice); ok && types.Identical(sl.Elem(), types.Typ[types.Byte]) {
					// slice of a uuid.UUID array?
					row.Enc = "raw"
					if s2, ok := ast.Unparen(c.Args[1]).(*ast.SliceExpr); ok {
						if at, ok := info.Types[s2.X].Type.Underlying().(*types.Array); ok && at.Len() == 16 && s2.Low == nil && s2.High == nil {
							row.Enc = "uuid-bytes"
						}
					}
				} else {
					row.Enc = "unrecognised"
				}
			}
		} else if order, m := byteOrderOf(info, c); order != "" {
			if order == "pkgfunc" {
				row.Enc = "other-binary:" + m
			} else if m == "PutUint64" {
				row.Enc = "uint64-" + order
				if row.Hi == -1 {
					row.Hi = row.Lo + 8 // PutUint64 writes exactly eight bytes at the start of the slice it is given
				}
			} else {
				row.Enc = "other-binary:" + order + "." + m
			}
		} else {
			row.Enc = "unrecognised"
		}
		if row.Field == "" {
			row.Field = fmt.Sprintf("?%d", n)
		}
		n++
		if old, dup := tab[row.Field]; dup {
			r.Viol("C19.a", kMarshal+"#"+row.Field, row.Pos, fmt.Sprintf("field written twice (%s and %s)", old.Pos, row.Pos))
		}
		tab[row.Field] = row
		return true
	})
	return tab
}

func c19ReaderTable(p *Prog, r *Report, unm *FuncInfo) map[string]layoutRow {
	info := unm.Pkg.TypesInfo
	tab := map[string]layoutRow{}
	var dataParam types.Object
	for _, fld := range unm.Decl.Type.Params.List {
		for _, nm := range fld.Names {
			if o := info.Defs[nm]; o != nil {
				if sl, ok := o.Type().Underlying().(*types.Slice); ok && types.Identical(sl.Elem(), types.Typ[types.Byte]) {
					dataParam = o
				}
			}
		}
	}
	ast.Inspect(unm.Decl.Body, func(x ast.Node) bool {
		as, ok := x.(*ast.AssignStmt)
		if !ok || len(as.Lhs) != 1 || len(as.Rhs) != 1 {
			return true
		}
		sel, ok := as.Lhs[0].(*ast.SelectorExpr)
		if !ok {
			return true
		}
		if fileFieldIn(unm, sel, 0) == "" {
			return true
		}
		row := layoutRow{Field: sel.Sel.Name, Pos: p.pos(as), Enc: "unrecognised"}
		var se ast.Expr
		var lo, hi int64
		okb := false
		ast.Inspect(as.Rhs[0], func(y ast.Node) bool {
			if se != nil {
				return false
			}
			e, isE := y.(ast.Expr)
			if !isE {
				return true
			}
			switch e.(type) {
			case *ast.SliceExpr, *ast.Ident:
				if l, h, rooted, k := absSlice(unm, dataParam, e, 0); rooted {
					se, lo, hi, okb = e, l, h, k
					return false
				}
			}
			return true
		})
		if se == nil {
			// the bytes may first be copied into a local id array: copy(txId[:], data[8:24]); f.TxId = txId.String()
			ast.Inspect(as.Rhs[0], func(y ast.Node) bool {
				id, ok := y.(*ast.Ident)
				if !ok || se != nil {
					return true
				}
				o := objOf(info, id)
				if o == nil {
					return true
				}
				at, isArr := o.Type().Underlying().(*types.Array)
				if !isArr || at.Len() != 16 {
					return true
				}
				ast.Inspect(unm.Decl.Body, func(z ast.Node) bool {
					c, ok := z.(*ast.CallExpr)
					if !ok || len(c.Args) != 2 {
						return true
					}
					if cid, ok := c.Fun.(*ast.Ident); !ok || cid.Name != "copy" {
						return true
					}
					dst, ok := ast.Unparen(c.Args[0]).(*ast.SliceExpr)
					if !ok || objOf(info, dst.X) != o || dst.Low != nil || dst.High != nil {
						return true
					}
					if l, h, rooted, k := absSlice(unm, dataParam, c.Args[1], 0); rooted && k {
						se = c.Args[1]
						row.Lo, row.Hi, row.Enc = l, h, "uuid-bytes"
					}
					return true
				})
				return true
			})
			tab[row.Field] = row
			return true
		}
		row.Lo, row.Hi = lo, hi
		if okb {
			// classify decoding
			ast.Inspect(as.Rhs[0], func(y ast.Node) bool {
				c, ok := y.(*ast.CallExpr)
				if !ok {
					return true
				}
				if order, m := byteOrderOf(info, c); order != "" {
					if order == "pkgfunc" {
						row.Enc = "other-binary:" + m
					} else if m == "Uint64" {
						row.Enc = "uint64-" + order
						if row.Hi == -1 {
							row.Hi = row.Lo + 8 // Uint64 reads exactly the first eight bytes of the slice
						}
					} else {
						row.Enc = "other-binary:" + order + "." + m
					}
					return false
				}
				if tv, ok := info.Types[c.Fun]; ok && tv.IsType() {
					if at, ok := tv.Type.Underlying().(*types.Array); ok && at.Len() == 16 {
						if row.Enc == "unrecognised" {
							row.Enc = "uuid-bytes"
						}
					} else if bt, ok := tv.Type.Underlying().(*types.Basic); ok && bt.Info()&types.IsString != 0 {
						if row.Enc == "unrecognised" {
							row.Enc = "raw"
						}
					}
				}
				return true
			})
		}
		tab[row.Field] = row
		return true
	})
	return tab
}

func c19FileLen(p *Prog, r *Report) {
	fl := p.Func(kFileLen)
	if fl == nil {
		r.Undecided("C19.a", "fileLen", "", "function fileLen not found")
		return
	}
	// a measure that is certainly not the key's length in bytes (seeded C19-I): runes
	flInfo := fl.Pkg.TypesInfo
	runes := ""
	ast.Inspect(fl.Decl.Body, func(x ast.Node) bool {
		c, isCall := x.(*ast.CallExpr)
		if !isCall {
			return true
		}
		if isFunc(flInfo, c, "unicode/utf8", "RuneCountInString") || isFunc(flInfo, c, "unicode/utf8", "RuneCount") {
			runes = p.pos(c)
		}
		if id, isId := c.Fun.(*ast.Ident); isId && id.Name == "len" && len(c.Args) == 1 {
			if conv, isConv := ast.Unparen(c.Args[0]).(*ast.CallExpr); isConv && len(conv.Args) == 1 {
				if tv, ok := flInfo.Types[conv.Fun]; ok && tv.IsType() {
					if sl, ok := tv.Type.Underlying().(*types.Slice); ok {
						if b, ok := sl.Elem().Underlying().(*types.Basic); ok && b.Kind() == types.Int32 {
							runes = p.pos(c)
						}
					}
				}
			}
		}
		return true
	})
	if runes != "" {
		r.Viol("C19.a", kFileLen, runes, "fileLen counts the runes of the key, not its bytes: for a key with multi-byte characters the record buffer is shorter than 40+len(Key), the raw key is cut when it is copied in, and the key does not decode to what was encoded")
		return
	}
	// evaluate fileLen abstractly for len(Key) in {0,1,7}
	ok := true
	detail := ""
	for _, kl := range []int64{0, 1, 7} {
		env := &Env{P: p, Pkg: fl.Pkg, Vars: map[types.Object]*Val{}}
		env.Hook = func(env *Env, e ast.Expr) (*Val, bool) {
			if c, isCall := e.(*ast.CallExpr); isCall {
				if id, isId := c.Fun.(*ast.Ident); isId && id.Name == "len" {
					return intVal(kl), true
				}
			}
			return nil, false
		}
		var ret []*Val
		err := func() (err error) {
			defer func() {
				if x := recover(); x != nil {
					err = fmt.Errorf("%v", x)
				}
			}()
			ret, _ = env.execBlock(fl.Decl.Body.List)
			return nil
		}()
		if err != nil || len(ret) != 1 || ret[0].C == nil {
			r.Undecided("C19.a", kFileLen, p.pos(fl.Decl), fmt.Sprintf("cannot evaluate fileLen: %v", err))
			return
		}
		if ret[0].C.ExactString() != fmt.Sprint(40+kl) {
			ok = false
			detail = fmt.Sprintf("fileLen = %s for a %d-byte key, the format needs %d", ret[0].C.ExactString(), kl, 40+kl)
		}
	}
	r.Check(ok, "C19.a", kFileLen, p.pos(fl.Decl), "fileLen(f) = 40 + len(f.Key)", detail)

	set := p.Func(kFileSet)
	if set == nil {
		r.Undecided("C19.a", kFileSet, "", "Repo.Set not found")
		return
	}
	info := set.Pkg.TypesInfo
	// data := make([]byte, fileLen(f)); marshalFile(f, data)
	good := false
	var pos ast.Node = set.Decl
	// (in Set itself or in a helper of the repository that allocates and fills the record: encodeFile)
	for _, body := range p.deepBodies(set) {
		ast.Inspect(body, func(x ast.Node) bool {
			c, ok := x.(*ast.CallExpr)
			if !ok {
				return true
			}
			if id, ok := c.Fun.(*ast.Ident); ok && id.Name == "make" && len(c.Args) == 2 {
				if _, isB := info.Uses[id].(*types.Builtin); isB {
					pos = c
					if inner, ok := ast.Unparen(c.Args[1]).(*ast.CallExpr); ok && p.callIs(set.Pkg, inner, kFileLen) {
						good = true
					}
				}
			}
			return true
		})
	}
	r.Check(good, "C19.a", kFileSet+"#alloc", p.pos(pos), "buffer allocated with make([]byte, fileLen(f))", "the record buffer is not allocated with exactly fileLen(f) bytes")
}

// c19Guards: abstract interpretation over the input length.
func c19Guards(p *Prog, r *Report, mar, unm *FuncInfo) {
	info := unm.Pkg.TypesInfo
	f := p.FlatOf(unm)
	var dataObj types.Object
	for _, fld := range unm.Decl.Type.Params.List {
		for _, nm := range fld.Names {
			if o := info.Defs[nm]; o != nil {
				if _, ok := o.Type().Underlying().(*types.Slice); ok {
					dataObj = o
				}
			}
		}
	}
	if dataObj == nil {
		r.Undecided("C19.b", kUnmarshal, p.pos(unm.Decl), "no []byte parameter")
		return
	}
	// slice / conversion sites per node
	type site struct {
		node  int
		bound int64
		pos   string
		what  string
	}
	var sites []site
	for _, n := range f.Nodes {
		if n.Ast == nil {
			continue
		}
		walkNoLit(n.Ast, func(x ast.Node) bool {
			if se, ok := x.(*ast.SliceExpr); ok {
				lo, hi, rooted, okb := absSlice(unm, dataObj, se, 0)
				if !rooted {
					return true
				}
				if !okb {
					r.Viol("C19.b", kUnmarshal+"#slice", p.pos(se), "slice bound is not a compile-time constant: cannot be covered by the length guard")
					return true
				}
				b := lo
				if hi > b {
					b = hi
				}
				sites = append(sites, site{n.ID, b, p.pos(se), types.ExprString(se)})
			}
			if ie, ok := x.(*ast.IndexExpr); ok {
				blo, _, rooted, okb := absSlice(unm, dataObj, ie.X, 0)
				if !rooted {
					return true
				}
				if v, okc := constInt(info, ie.Index); okc && okb {
					sites = append(sites, site{n.ID, blo + v + 1, p.pos(ie), types.ExprString(ie)})
				} else {
					r.Viol("C19.b", kUnmarshal+"#index", p.pos(ie), "index is not a compile-time constant")
				}
			}
			if c, ok := x.(*ast.CallExpr); ok && len(c.Args) == 1 {
				if tv, ok := info.Types[c.Fun]; ok && tv.IsType() {
					if at, ok := tv.Type.Underlying().(*types.Array); ok {
						if lo, hi, rooted, okb := absSlice(unm, dataObj, c.Args[0], 0); rooted {
							cons := kUnmarshal + "#array-conversion"
							r.Check(okb && hi >= 0 && hi-lo == at.Len(), "C19.b", cons, p.pos(c),
								fmt.Sprintf("slice of constant length %d converted to [%d]byte", hi-lo, at.Len()),
								fmt.Sprintf("slice [%d:%d] converted to an array of length %d: panics at run time", lo, hi, at.Len()))
						}
					}
				}
			}
			return true
		})
	}
	if len(sites) < 2 {
		// the reads go through a cursor or helpers (rec.next(n)): the abstract run of the decoder says which
		// statement of unmarshalFile needs how many bytes
		if ci, ok, _ := codecRun(p, unm, "reader"); ok {
			for _, a := range ci.accesses {
				node := -1
				if es, isExpr := a.Stmt.(*ast.ExprStmt); isExpr {
					node = f.NodeContaining(es.X)
				} else {
					for _, n := range f.Nodes {
						if n.Ast == ast.Node(a.Stmt) {
							node = n.ID
						}
					}
					if node < 0 {
						ast.Inspect(a.Stmt, func(x ast.Node) bool {
							if node < 0 && x != nil {
								if id := f.NodeContaining(x); id >= 0 {
									node = id
								}
							}
							return node < 0
						})
					}
				}
				if node >= 0 {
					sites = append(sites, site{node, a.Need, a.Pos, a.What})
				}
			}
		}
	}
	r.Floor("C19.b", "unmarshal-slice-sites", len(sites), 2)
	sentinel := "internal/model.ErrInvalidFileFormat"
	bad := map[string]string{}
	rejectOK := true
	rejectDetail := ""
	acceptOK := true
	for L := int64(0); L <= 41; L++ {
		env := &Env{P: p, Pkg: unm.Pkg, Vars: map[types.Object]*Val{}, Body: unm.Decl.Body}
		env.Hook = func(env *Env, e ast.Expr) (*Val, bool) {
			if c, isCall := e.(*ast.CallExpr); isCall && len(c.Args) == 1 {
				if id, isId := c.Fun.(*ast.Ident); isId && id.Name == "len" && objOf(info, c.Args[0]) == dataObj {
					return intVal(L), true
				}
			}
			if id, ok := e.(*ast.Ident); ok {
				if o := objOf(info, id); o != nil && o != dataObj {
					if _, isPtr := o.Type().(*types.Pointer); isPtr {
						return &Val{Ptr: &Val{Fields: map[string]*Val{}}}, true // non-nil *File
					}
				}
			}
			return nil, false
		}
		edgeOK := func(from *GNode, e Edge) bool {
			if !from.IsCond {
				return true
			}
			v, err := env.Eval(from.Ast.(ast.Expr))
			if err != nil || v.C == nil {
				return true // undecidable condition: both edges
			}
			tr := v.C.ExactString() == "true"
			return (e.Label == 1) == tr
		}
		seen := f.Reach([]int{f.Entry}, nil, edgeOK)
		for _, s := range sites {
			if seen[s.node] && L < s.bound {
				bad[s.pos] = fmt.Sprintf("%s is reachable with len(data)=%d (< %d): slice bounds out of range", s.what, L, s.bound)
			}
		}
		for _, id := range f.ReturnNodes() {
			if !seen[id] {
				continue
			}
			rs := f.returnStmt(id)
			k := ""
			if rs != nil && len(rs.Results) == 1 {
				k = exprObjKey(info, rs.Results[0])
			}
			if L < 40 && k != sentinel {
				rejectOK = false
				rejectDetail = fmt.Sprintf("with len(data)=%d the function can reach %s which does not return ErrInvalidFileFormat", L, p.pos(f.Nodes[id].Ast))
			}
			_ = acceptOK
		}
		// a full-size record must be accepted
		if L >= 40 {
			ok := false
			for _, id := range f.ReturnNodes() {
				if seen[id] {
					if rs := f.returnStmt(id); rs != nil && len(rs.Results) == 1 && isNilIdent(info, rs.Results[0]) {
						ok = true
					}
				}
			}
			if !ok {
				acceptOK = false
			}
		}
	}
	var ks []string
	for k := range bad {
		ks = append(ks, k)
	}
	sort.Strings(ks)
	for _, k := range ks {
		r.Viol("C19.b", kUnmarshal+"#bounds", k, bad[k])
	}
	if len(bad) == 0 {
		r.Hold("C19.b", kUnmarshal+"#bounds", p.pos(unm.Decl), fmt.Sprintf("%d slice sites unreachable below their bound for all lengths 0..41", len(sites)))
	}
	r.Check(rejectOK, "C19.b", kUnmarshal+"#short-input", p.pos(unm.Decl), "every input shorter than 40 bytes returns ErrInvalidFileFormat", rejectDetail)
	r.Check(acceptOK, "C19.b", kUnmarshal+"#full-input", p.pos(unm.Decl), "inputs of 40 and 41 bytes can be decoded (nil return reachable)", "a record of 40 (empty key) or 41 bytes is rejected: stored records no longer load")

	// marshalFile: the length test dominates the writes
	mf := p.FlatOf(mar)
	minfo := mar.Pkg.TypesInfo
	var guard []int
	for _, n := range mf.Nodes {
		if n.IsCond {
			hasLen, hasFL := false, false
			ast.Inspect(n.Ast, func(x ast.Node) bool {
				if c, ok := x.(*ast.CallExpr); ok {
					if id, ok := c.Fun.(*ast.Ident); ok && id.Name == "len" {
						hasLen = true
					}
					if p.callIs(mar.Pkg, c, kFileLen) {
						hasFL = true
					}
				}
				return true
			})
			if be, ok := ast.Unparen(n.Ast.(ast.Expr)).(*ast.BinaryExpr); ok && hasLen && hasFL && (be.Op == token.NEQ || be.Op == token.EQL || be.Op == token.LSS) {
				guard = append(guard, n.ID)
			} else if ok && hasLen && hasFL && be.Op == token.LOR {
				// the length test is one disjunct of a combined rejection: if parseErr != nil || len(data) != fileLen(f)
				var disj func(e ast.Expr) bool
				disj = func(e ast.Expr) bool {
					b, ok := ast.Unparen(e).(*ast.BinaryExpr)
					if !ok {
						return false
					}
					if b.Op == token.LOR {
						return disj(b.X) || disj(b.Y)
					}
					if b.Op != token.NEQ && b.Op != token.LSS {
						return false
					}
					l, fl := false, false
					ast.Inspect(b, func(x ast.Node) bool {
						if c, ok := x.(*ast.CallExpr); ok {
							if id, ok := c.Fun.(*ast.Ident); ok && id.Name == "len" {
								l = true
							}
							if p.callIs(mar.Pkg, c, kFileLen) {
								fl = true
							}
						}
						return true
					})
					return l && fl
				}
				if disj(be) {
					guard = append(guard, n.ID)
				}
			}
		}
	}
	var writes []int
	for _, n := range mf.Nodes {
		if n.Ast == nil {
			continue
		}
		w := false
		walkNoLit(n.Ast, func(x ast.Node) bool {
			if c, ok := x.(*ast.CallExpr); ok && len(c.Args) >= 1 {
				if _, ok := ast.Unparen(c.Args[0]).(*ast.SliceExpr); ok {
					if id, ok := c.Fun.(*ast.Ident); ok && id.Name == "copy" {
						w = true
					}
					if o, _ := byteOrderOf(minfo, c); o != "" {
						w = true
					}
				}
			}
			return true
		})
		if w {
			writes = append(writes, n.ID)
		}
	}
	okAll := len(guard) > 0
	for _, w := range writes {
		if !mf.MustPrecede(setOf(guard), w) {
			okAll = false
		}
	}
	r.Check(okAll, "C19.b", kMarshal+"#length-guard", p.pos(mar.Decl), fmt.Sprintf("len(data) vs fileLen(f) test dominates all %d writes", len(writes)), "a write into the record buffer is reachable without the len(data) == fileLen(f) test")
}

// constPrefix returns the constant string prefix of a key builder ([]byte("file/" + id)).
func constPrefix(fi *FuncInfo) (string, bool) {
	info := fi.Pkg.TypesInfo
	pref, ok := "", false
	ast.Inspect(fi.Decl.Body, func(x ast.Node) bool {
		be, isB := x.(*ast.BinaryExpr)
		if isB && be.Op == token.ADD {
			if s, k := constStr(info, be.X); k {
				pref, ok = s, true
				return false
			}
		}
		if c, isC := x.(*ast.CallExpr); isC {
			// fmt.Sprintf("file/%s", id) or append([]byte("file/"), ...)
			for _, a := range c.Args {
				if s, k := constStr(info, a); k && !ok {
					if i := strings.Index(s, "%"); i >= 0 {
						s = s[:i]
					}
					pref, ok = s, true
				}
			}
		}
		return true
	})
	return pref, ok
}

func c19Keys(p *Prog, r *Report) {
	fk, ck := p.Func(kFileKey), p.Func(kCFKey)
	if fk == nil || ck == nil {
		// no key method of the repository: the keys are judged where they are handed to the Badger layer
		c19KeysAtCallSites(p, r)
		return
	}
	a, okA := constPrefix(fk)
	b, okB := constPrefix(ck)
	if !okA || !okB {
		r.Undecided("C19.c", "key-builders", p.pos(fk.Decl), "key builders do not start with a constant prefix")
		return
	}
	r.Tables["key_prefixes"] = map[string]string{kFileKey: a, kCFKey: b}
	disjoint := a != "" && b != "" && !strings.HasPrefix(a, b) && !strings.HasPrefix(b, a)
	r.Check(disjoint, "C19.c", "key-prefixes", p.pos(fk.Decl), fmt.Sprintf("%q and %q are prefix-free", a, b),
		fmt.Sprintf("key prefixes %q and %q overlap: the version-record scan would read content records (or vice versa)", a, b))
	ga := p.Func(kFileGetAll)
	if ga == nil {
		r.Undecided("C19.c", kFileGetAll, "", "GetAll not found")
		return
	}
	info := ga.Pkg.TypesInfo
	good := false
	var at ast.Node = ga.Decl
	ast.Inspect(ga.Decl.Body, func(x ast.Node) bool {
		c, ok := x.(*ast.CallExpr)
		if !ok {
			return true
		}
		if p.callIs(ga.Pkg, c, "(*internal/db/badger.Manager).GetAll", "(internal/db/badger.QueryManager).GetAll") && len(c.Args) == 1 {
			at = c
			if kc, ok := ast.Unparen(c.Args[0]).(*ast.CallExpr); ok && p.callIs(ga.Pkg, kc, kFileKey) && len(kc.Args) == 1 {
				if s, k := constStr(info, kc.Args[0]); k && s == "" {
					good = true
				}
			}
			// ... or the constant prefix of the key builder itself: []byte(keyPrefix)
			if kc, ok := ast.Unparen(c.Args[0]).(*ast.CallExpr); ok && len(kc.Args) == 1 {
				if tv, isT := info.Types[kc.Fun]; isT && tv.IsType() {
					if s, k := constStr(info, kc.Args[0]); k {
						if fk := p.Func(kFileKey); fk != nil {
							if pref, ok := constPrefix(fk); ok && pref == s {
								good = true
							}
						}
					}
				}
			}
		}
		return true
	})
	r.Check(good, "C19.c", kFileGetAll+"#scan-prefix", p.pos(at), "GetAll scans with key(\"\")", "GetAll does not scan exactly the version-record key space (key(\"\"))")
}

func c19GetAll(p *Prog, r *Report) {
	ga := p.Func(kFileGetAll)
	if ga == nil {
		return
	}
	// (the decoding loop may sit in a helper of the repository: decodeFiles(items))
	f := p.FlatInlExcept(ga, kUnmarshal)
	sites := f.CallSites(kUnmarshal)
	sites = append(sites, f.CallSites("(*internal/db/badger.Manager).GetAll", "(internal/db/badger.QueryManager).GetAll")...)
	r.Floor("C19.d", "GetAll-error-sources", len(sites), 2)
	for _, s := range sites {
		cons := kFileGetAll + "#" + types.ExprString(s.Call.Fun)
		f.SiteConsumed(r, "C19.d", cons, ga, s, flowOpts{Class: true})
	}
}

// keyPrefixOf evaluates the constant prefix of a key expression: prefix is what the key certainly starts with,
// whole tells whether that is the entire key. Constants, "const" + x, []byte(x), append(x, y...), fmt.Sprintf with a
// constant format, and functions / methods of the package with one return (receiver and parameters substituted).
func (p *Prog) keyPrefixOf(fi *FuncInfo, e ast.Expr, bind map[types.Object]ast.Expr, bindFi map[types.Object]*FuncInfo, depth int) (prefix string, whole, ok bool) {
	info := fi.Pkg.TypesInfo
	e = ast.Unparen(e)
	if depth > 16 {
		return "", false, false
	}
	if s, k := constStr(info, e); k {
		return s, true, true
	}
	switch x := e.(type) {
	case *ast.Ident:
		if o := objOf(info, x); o != nil {
			if kv, known := keyLocals[o]; known {
				return kv.pref, kv.whole, true
			}
		}
		if o := objOf(info, x); o != nil && bind[o] != nil {
			return p.keyPrefixOf(bindFi[o], bind[o], bind, bindFi, depth+1)
		}
		return "", false, true // an id: contributes nothing certain
	case *ast.SelectorExpr:
		// a field of a parameter that the call site binds to a literal: recordKey(model.File{}) - the zero record
		// gives the bare prefix
		if o := objOf(info, x.X); o != nil && bind[o] != nil {
			if cl, isLit := ast.Unparen(bind[o]).(*ast.CompositeLit); isLit {
				for _, el := range cl.Elts {
					if kv, isKV := el.(*ast.KeyValueExpr); isKV {
						if id, isId := kv.Key.(*ast.Ident); isId && id.Name == x.Sel.Name {
							return p.keyPrefixOf(bindFi[o], kv.Value, bind, bindFi, depth+1)
						}
					} else {
						return "", false, true // positional literal: not followed
					}
				}
				if tv, has := info.Types[x]; has {
					if bt, isB := tv.Type.Underlying().(*types.Basic); isB && bt.Info()&types.IsString != 0 {
						return "", true, true
					}
				}
			}
		}
		return "", false, true
	case *ast.BinaryExpr:
		if x.Op == token.ADD {
			a, aw, aok := p.keyPrefixOf(fi, x.X, bind, bindFi, depth+1)
			if !aok {
				return "", false, false
			}
			if !aw {
				return a, false, true
			}
			b, bw, bok := p.keyPrefixOf(fi, x.Y, bind, bindFi, depth+1)
			if !bok {
				return a, false, true
			}
			return a + b, bw, true
		}
	case *ast.CallExpr:
		if tv, isT := info.Types[x.Fun]; isT && tv.IsType() && len(x.Args) == 1 {
			return p.keyPrefixOf(fi, x.Args[0], bind, bindFi, depth+1)
		}
		if id, isId := x.Fun.(*ast.Ident); isId && id.Name == "append" && len(x.Args) >= 1 {
			a, aw, aok := p.keyPrefixOf(fi, x.Args[0], bind, bindFi, depth+1)
			if !aok {
				return "", false, false
			}
			if !aw || len(x.Args) < 2 {
				return a, aw && len(x.Args) < 2, true
			}
			b, bw, bok := p.keyPrefixOf(fi, x.Args[1], bind, bindFi, depth+1)
			if !bok {
				return a, false, true
			}
			return a + b, bw && len(x.Args) == 2, true
		}
		if isFunc(info, x, "fmt", "Sprintf") && len(x.Args) >= 1 {
			if s, k := constStr(info, x.Args[0]); k {
				if i := strings.Index(s, "%"); i >= 0 {
					return s[:i], false, true
				}
				return s, true, true
			}
		}
		// make([]byte, 0, n): an empty key to append to
		if id, isId := x.Fun.(*ast.Ident); isId && id.Name == "make" && len(x.Args) >= 2 {
			if n, isC := constInt(info, x.Args[1]); isC && n == 0 {
				return "", true, true
			}
		}
		// a helper that builds the key step by step in one local: key := make(..); key = append(key, prefix...);
		// key = append(key, id...); return key
		if callee := p.staticCallee(fi.Pkg, x); callee != nil && callee.Pkg == fi.Pkg && callee.Decl.Body != nil && len(callee.Decl.Body.List) > 1 {
			stmts := callee.Decl.Body.List
			cinfo := callee.Pkg.TypesInfo
			if rs, isRet := stmts[len(stmts)-1].(*ast.ReturnStmt); isRet && len(rs.Results) == 1 {
				var v types.Object
				if as0, isAs := stmts[0].(*ast.AssignStmt); isAs && len(as0.Lhs) == 1 {
					v = objOf(cinfo, as0.Lhs[0])
				}
				if v != nil {
					nb, nf := map[types.Object]ast.Expr{}, map[types.Object]*FuncInfo{}
					for k, val := range bind {
						nb[k], nf[k] = val, bindFi[k]
					}
					args := argExprs(x, callee)
					for i, po := range paramObjs(callee) {
						if po != nil && args[i] != nil {
							nb[po], nf[po] = args[i], fi
						}
					}
					straight := true
					saved, had := keyLocals[v]
					for _, st := range stmts[:len(stmts)-1] {
						as, isAs := st.(*ast.AssignStmt)
						if !isAs || len(as.Lhs) != 1 || len(as.Rhs) != 1 || objOf(cinfo, as.Lhs[0]) != v {
							straight = false
							break
						}
						pref, whole, ok := p.keyPrefixOf(callee, as.Rhs[0], nb, nf, depth+1)
						if !ok {
							straight = false
							break
						}
						keyLocals[v] = keyLocal{pref, whole}
					}
					var res keyLocal
					isKnown := false
					if straight {
						// what is returned: the local, or one more step on it (return append(key, id...))
						if pref, whole, ok := p.keyPrefixOf(callee, rs.Results[0], nb, nf, depth+1); ok {
							res, isKnown = keyLocal{pref, whole}, true
						}
					}
					if had {
						keyLocals[v] = saved
					} else {
						delete(keyLocals, v)
					}
					if straight && isKnown {
						return res.pref, res.whole, true
					}
				}
			}
		}
		if callee := p.staticCallee(fi.Pkg, x); callee != nil && callee.Pkg == fi.Pkg && callee.Decl.Body != nil && len(callee.Decl.Body.List) == 1 {
			if rs, isRet := callee.Decl.Body.List[0].(*ast.ReturnStmt); isRet && len(rs.Results) == 1 {
				nb, nf := map[types.Object]ast.Expr{}, map[types.Object]*FuncInfo{}
				for k, v := range bind {
					nb[k], nf[k] = v, bindFi[k]
				}
				args := argExprs(x, callee)
				for i, po := range paramObjs(callee) {
					if po != nil && args[i] != nil {
						nb[po], nf[po] = args[i], fi
					}
				}
				return p.keyPrefixOf(callee, rs.Results[0], nb, nf, depth+1)
			}
		}
	}
	return "", false, false
}

// c19KeysAtCallSites: the key spaces of the two repositories, read off the keys they hand to the Badger layer.
func c19KeysAtCallSites(p *Prog, r *Report) {
	dbCalls := []string{"(*internal/db/badger.Manager).GetAll", "(internal/db/badger.QueryManager).GetAll", "(internal/db/badger.QueryManager).Get", "(internal/db/badger.QueryManager).Set",
		"(internal/db/badger.QueryManager).Delete", "(*internal/db/badger.Manager).Get", "(*internal/db/badger.Manager).Set", "(*internal/db/badger.Manager).Delete"}
	prefixes := map[string]map[string]bool{}
	scan, scanWhole := "", false
	var scanAt ast.Node
	sites := 0
	for _, pk := range []string{"internal/repository/file", "internal/repository/content_file"} {
		prefixes[pk] = map[string]bool{}
		for _, k := range sortedFuncKeys(p) {
			fi := p.Funcs[k]
			if fi.Decl == nil || fi.Decl.Body == nil || shortPath(fi.Pkg.PkgPath) != pk {
				continue
			}
			ast.Inspect(fi.Decl.Body, func(x ast.Node) bool {
				c, ok := x.(*ast.CallExpr)
				if !ok || len(c.Args) < 1 || !p.callIs(fi.Pkg, c, dbCalls...) {
					return true
				}
				sites++
				pref, whole, ok := p.keyPrefixOf(fi, c.Args[0], map[types.Object]ast.Expr{}, map[types.Object]*FuncInfo{}, 0)
				if !ok {
					r.Undecided("C19.c", "key-builders", p.pos(c), "the key "+types.ExprString(c.Args[0])+" does not start with a constant prefix the rule can compute")
					return true
				}
				prefixes[pk][pref] = true
				if sel, isSel := c.Fun.(*ast.SelectorExpr); isSel && sel.Sel.Name == "GetAll" && pk == "internal/repository/file" {
					scan, scanWhole, scanAt = pref, whole, c
				}
				return true
			})
		}
	}
	one := func(m map[string]bool) (string, bool) {
		if len(m) != 1 {
			return "", false
		}
		for k := range m {
			return k, true
		}
		return "", false
	}
	a, okA := one(prefixes["internal/repository/file"])
	b, okB := one(prefixes["internal/repository/content_file"])
	if !okA || !okB {
		r.Undecided("C19.c", "key-builders", "", fmt.Sprintf("the keys of a repository do not share one constant prefix (%v / %v)", prefixes["internal/repository/file"], prefixes["internal/repository/content_file"]))
		return
	}
	r.Floor("C19.c", "badger-key-sites", sites, 6)
	r.Tables["key_prefixes"] = map[string]string{"internal/repository/file": a, "internal/repository/content_file": b}
	disjoint := a != "" && b != "" && !strings.HasPrefix(a, b) && !strings.HasPrefix(b, a)
	r.Check(disjoint, "C19.c", "key-prefixes", "", fmt.Sprintf("%q and %q are prefix-free", a, b),
		fmt.Sprintf("key prefixes %q and %q overlap: the version-record scan would read content records (or vice versa)", a, b))
	r.Check(scanAt != nil && scanWhole && scan == a, "C19.c", kFileGetAll+"#scan-prefix", p.pos(scanAt), "GetAll scans exactly the version-record prefix", "GetAll does not scan exactly the version-record key space")
}

// keyLocals: the prefix computed so far for the local of a key-building helper that is being read statement by
// statement (see keyPrefixOf).
type keyLocal struct {
	pref  string
	whole bool
}

var keyLocals = map[types.Object]keyLocal{}
