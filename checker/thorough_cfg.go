package main

import (
	"fmt"
	"os"
	"os/exec"
	"path/filepath"
	"sort"
	"strings"
	"sync"
)

// thoroughConfigs re-runs the rules of the property under the other build
// configurations of the repository: -tags test (the space-limited os.File.Write)
// and, for the os shim, GOOS=windows (type-check only).
func thoroughConfigs(p *Prog, r *Report, repo string) {
	p2, err := Load(repo, "test", "")
	if err != nil {
		r.Undecided("config", "tags=test", "", fmt.Sprintf("cannot load with -tags test: %v", err))
	} else {
		r2 := NewReport(r.Prop, r.Tier, r.Seed)
		registry[r.Prop](p2, r2)
		n := 0
		for _, o := range r2.Obls {
			o.Construct = o.Construct + " [tags=test]"
			if o.Verdict == Violated || o.Verdict == Undecided {
				// the same obligation in the default configuration decides known-finding matching
				o.Construct = strings.TrimSuffix(o.Construct, " [tags=test]")
				dup := false
				for _, d := range r.Obls {
					if d.Key() == o.Key() && d.Verdict == o.Verdict {
						dup = true
					}
				}
				if dup {
					continue
				}
				o.Construct += " [tags=test]"
				r.add(o)
			}
			n++
		}
		r.Analysed["obligations_tags_test"] = n
		r.Note("configuration -tags test: %d obligations evaluated, verdicts merged", n)
	}
	// GOOS=windows: the other half of the ENOSPC constant must type-check
	if _, err := LoadPkgOnly(repo, "windows", "./internal/utils/os"); err != nil {
		r.Undecided("config", "GOOS=windows internal/utils/os", "", err.Error())
	} else {
		r.Note("GOOS=windows: internal/utils/os type-checks")
	}
}

// LoadPkgOnly type-checks a single package pattern under another GOOS.
func LoadPkgOnly(repo, goos, pat string) (int, error) {
	cmd := exec.Command("go", "vet", pat)
	cmd.Dir = repo
	cmd.Env = goEnv("GOOS="+goos, "CGO_ENABLED=0")
	out, err := cmd.CombinedOutput()
	if err != nil {
		return 0, fmt.Errorf("go vet %s (GOOS=%s): %v: %s", pat, goos, err, strings.TrimSpace(string(out)))
	}
	return 1, nil
}

// thoroughSelftest validates the checker itself on the seeded corpus: every patch under
// /verif/mutants/<prop> must be reported, every patch under /verif/refactors/<prop>
// must stay silent. Each variant is applied to a fresh copy of the current /repo in its own
// temporary directory and analysed in its own process.
func thoroughSelftest(p *Prog, r *Report, repo, verif string) {
	type variant struct {
		path string
		want int // 1 = must be reported, 0 = must be silent
	}
	var vs []variant
	for _, d := range []struct {
		dir  string
		want int
	}{{"mutants", 1}, {"refactors", 0}} {
		m, _ := filepath.Glob(filepath.Join(verif, d.dir, r.Prop, "*.patch"))
		if d.want == 0 {
			// a behaviour-preserving variant must leave every property's check silent, whichever property it was written for
			m, _ = filepath.Glob(filepath.Join(verif, d.dir, "*", "*.patch"))
		}
		sort.Strings(m)
		for _, f := range m {
			vs = append(vs, variant{f, d.want})
		}
		// seeded changes written by independent agents
		if d.want == 1 {
			sm, _ := filepath.Glob(filepath.Join(verif, "seeded", "*", "patch.diff"))
			sort.Strings(sm)
			for _, f := range sm {
				meta, _ := os.ReadFile(filepath.Join(filepath.Dir(f), "meta.json"))
				if strings.Contains(string(meta), "\"detected_by\"") && strings.Contains(string(meta), "\""+r.Prop+"\"") &&
					seededDetectedBy(string(meta), r.Prop) {
					vs = append(vs, variant{f, 1})
				}
			}
		}
	}
	if len(vs) == 0 {
		r.Note("selftest: no seeded variants for %s", r.Prop)
		return
	}
	type result struct {
		v      variant
		status string
		detail string
	}
	results := make([]result, len(vs))
	sem := make(chan struct{}, 8)
	var wg sync.WaitGroup
	self, _ := os.Executable()
	for i, v := range vs {
		wg.Add(1)
		go func(i int, v variant) {
			defer wg.Done()
			sem <- struct{}{}
			defer func() { <-sem }()
			results[i] = result{v: v}
			tmp, err := os.MkdirTemp("", "fsdbcheck-variant-")
			if err != nil {
				results[i].status, results[i].detail = "error", err.Error()
				return
			}
			defer os.RemoveAll(tmp)
			cp := exec.Command("rsync", "-a", "--exclude", ".git", repo+"/", tmp+"/")
			if out, err := cp.CombinedOutput(); err != nil {
				results[i].status, results[i].detail = "error", string(out)
				return
			}
			ap := exec.Command("git", "apply", "--whitespace=nowarn", v.path)
			ap.Dir = tmp
			ap.Env = append(os.Environ(), "GIT_CEILING_DIRECTORIES=/")
			if out, err := ap.CombinedOutput(); err != nil {
				results[i].status, results[i].detail = "skipped", "patch does not apply to the current tree: "+strings.TrimSpace(string(out))
				return
			}
			ck := exec.Command(self, "-repo", tmp, "-verif", verif, "-prop", r.Prop, "-tier", "quick", "-no-evidence")
			out, _ := ck.CombinedOutput()
			code := ck.ProcessState.ExitCode()
			viol := strings.Contains(string(out), "VIOLATION property="+r.Prop)
			switch {
			case v.want == 1 && code == 1 && viol:
				results[i].status = "killed"
				for _, l := range strings.Split(string(out), "\n") {
					if strings.HasPrefix(l, "OBLIGATION") {
						results[i].detail = strings.TrimPrefix(l, "OBLIGATION ")
						break
					}
				}
			case v.want == 1:
				results[i].status, results[i].detail = "MISS", fmt.Sprintf("exit %d", code)
			case v.want == 0 && code == 0:
				results[i].status = "silent"
			default:
				results[i].status = "NOISE"
				for _, l := range strings.Split(string(out), "\n") {
					if strings.HasPrefix(l, "OBLIGATION") || strings.HasPrefix(l, "LOAD-FAILURE") {
						results[i].detail = l
						break
					}
				}
			}
		}(i, v)
	}
	wg.Wait()
	st := map[string]any{}
	counts := map[string]int{}
	var rows []map[string]string
	for _, x := range results {
		counts[x.status]++
		name := strings.TrimPrefix(x.v.path, verif+"/")
		rows = append(rows, map[string]string{"variant": name, "status": x.status, "detail": x.detail})
		switch x.status {
		case "MISS":
			fmt.Printf("SELFTEST-MISS %s %s\n", name, x.detail)
			r.Undecided("selftest", name, "", "seeded violation not reported: the rule was weakened")
		case "NOISE":
			fmt.Printf("SELFTEST-NOISE %s %s\n", name, x.detail)
			r.Undecided("selftest", name, "", "behaviour-preserving variant reported: "+x.detail)
		case "error":
			r.Undecided("selftest", name, "", x.detail)
		}
	}
	st["counts"] = counts
	st["variants"] = rows
	r.selftest = st
	r.Analysed["selftest_variants"] = len(vs)
}

func seededDetectedBy(meta, prop string) bool {
	i := strings.Index(meta, "\"detected_by\"")
	if i < 0 {
		return false
	}
	rest := meta[i:]
	j := strings.Index(rest, "]")
	if j < 0 {
		return false
	}
	return strings.Contains(rest[:j], "\""+prop+"\"")
}
