package main

func thoroughConfigs(p *Prog, r *Report, repo string)         {}
func thoroughSelftest(p *Prog, r *Report, repo, verif string) {}
