package main

// Flat control-flow graph over go/cfg: one graph node per ast.Node of every
// block plus one virtual entry node per block, with true/false edge labels for
// two-way branches. All ordering rules (E3) are reachability questions on it.

import (
	"fmt"
	"go/ast"
	"go/token"
	"go/types"
	"sort"
	"strings"

	"golang.org/x/tools/go/cfg"
	"golang.org/x/tools/go/packages"
	"golang.org/x/tools/go/types/typeutil"
)

type Edge struct {
	To    int
	Label int // 0 unconditional, 1 first successor (true / loop body), 2 second (false / done)
}

type GNode struct {
	ID    int
	Block *cfg.Block
	Ast   ast.Node // nil for the virtual block-entry node
	Succs []Edge
	Preds []int
	// IsCond: the node is the branching expression of a two-way block
	IsCond bool
	// Exit: control leaves the function after this node (return, fall off, no-return call)
	Exit bool
	// Synth marks the synthetic statements of a spliced-in helper: "bind" (parameters := arguments) and
	// "result" (the caller's left-hand sides := the helper's returned expressions)
	Synth string
}

type Flat struct {
	P     *Prog
	Pkg   *packages.Package
	Body  *ast.BlockStmt
	CFG   *cfg.CFG
	Nodes []*GNode
	Entry int
	first map[*cfg.Block]int // entry node of each block
	// WalkStop is the node at which the last WalkPath gave up (undecidable condition)
	WalkStop int
	// Inl / Alias are set by virtual inlining (inline.go): origin of spliced nodes, parameter -> argument bindings
	Inl   map[int]InlInfo
	Alias map[types.Object]ast.Expr
	// noInline: functions whose calls are never spliced in
	noInline map[string]bool
	// WalkMaxVisits bounds how often WalkPath may pass one node (default 1: loop-free paths only);
	// WalkExprStmts makes it evaluate expression statements too (for hooks that record calls)
	WalkMaxVisits int
	WalkExprStmts bool
	// Outer is the graph of the enclosing function when this graph is the body of a function literal
	// (CanonPath looks for the definitions of captured variables there)
	Outer *Flat
	// Facts (set by SplitBools): per node, the constants known for the tracked boolean / error locals on entry
	// (1 = true / certainly not nil, 2 = false / nil)
	Facts map[int]map[types.Object]int8
	// InfeasibleLoopExits: range statements whose "no more elements" edge a rule has removed after showing it
	// infeasible; a rule that rebuilds the graph (helpers spliced in) removes it again
	InfeasibleLoopExits []ast.Stmt
}

func (p *Prog) mayReturn(pkg *packages.Package) func(*ast.CallExpr) bool {
	return func(c *ast.CallExpr) bool {
		if id, ok := c.Fun.(*ast.Ident); ok && id.Name == "panic" {
			if _, isB := pkg.TypesInfo.Uses[id].(*types.Builtin); isB {
				return false
			}
		}
		if f := typeutil.StaticCallee(pkg.TypesInfo, c); f != nil && f.Pkg() != nil {
			full := f.Pkg().Path() + "." + f.Name()
			switch full {
			case "os.Exit", "log.Fatal", "log.Fatalf", "log.Fatalln", "runtime.Goexit":
				return false
			}
		}
		return true
	}
}

// NewFlat builds the flat CFG of a function body (FuncDecl or FuncLit body).
func (p *Prog) NewFlat(pkg *packages.Package, body *ast.BlockStmt) *Flat {
	g := cfg.New(body, p.mayReturn(pkg))
	f := &Flat{P: p, Pkg: pkg, Body: body, CFG: g, first: map[*cfg.Block]int{}}
	last := map[*cfg.Block]int{}
	for _, b := range g.Blocks {
		if !b.Live {
			continue
		}
		e := &GNode{ID: len(f.Nodes), Block: b}
		f.Nodes = append(f.Nodes, e)
		f.first[b] = e.ID
		prev := e
		for _, n := range b.Nodes {
			gn := &GNode{ID: len(f.Nodes), Block: b, Ast: n}
			f.Nodes = append(f.Nodes, gn)
			prev.Succs = append(prev.Succs, Edge{To: gn.ID})
			prev = gn
		}
		last[b] = prev.ID
	}
	for _, b := range g.Blocks {
		if !b.Live {
			continue
		}
		l := f.Nodes[last[b]]
		live := 0
		for _, s := range b.Succs {
			if s.Live {
				live++
			}
		}
		if len(b.Succs) == 0 {
			// the fall-through block after the last case of a select without default is a dead end
			// (the select blocks), not a function exit
			if b.Kind == cfg.KindSelectAfterCase && len(b.Nodes) == 0 {
				continue
			}
			l.Exit = true
			continue
		}
		for i, s := range b.Succs {
			if !s.Live {
				continue
			}
			lab := 0
			if len(b.Succs) == 2 {
				lab = i + 1
			}
			l.Succs = append(l.Succs, Edge{To: f.first[s], Label: lab})
		}
		if len(b.Succs) == 2 && l.Ast != nil {
			if _, ok := l.Ast.(ast.Expr); ok {
				switch b.Kind {
				case cfg.KindRangeLoop, cfg.KindSelectCaseBody:
				default:
					l.IsCond = true
				}
			}
		}
	}
	for _, n := range f.Nodes {
		for _, e := range n.Succs {
			f.Nodes[e.To].Preds = append(f.Nodes[e.To].Preds, n.ID)
		}
	}
	if len(g.Blocks) > 0 {
		f.Entry = f.first[g.Blocks[0]]
	}
	return f
}

// FlatOf returns the flat CFG of a declared function.
func (p *Prog) FlatOf(fi *FuncInfo) *Flat {
	if fi != nil && fi.Lit != nil {
		return p.NewFlat(fi.Pkg, fi.Lit.Body)
	}
	if fi == nil || fi.Decl.Body == nil {
		return nil
	}
	return p.NewFlat(fi.Pkg, fi.Decl.Body)
}

// Reach returns the set of nodes reachable from the start nodes (inclusive)
// without entering nodes for which stop returns true (start nodes included) and only along edges accepted by edgeOK (nil = all).
func (f *Flat) Reach(start []int, stop func(*GNode) bool, edgeOK func(from *GNode, e Edge) bool) map[int]bool {
	seen := map[int]bool{}
	var work []int
	for _, s := range start {
		if stop != nil && stop(f.Nodes[s]) {
			continue
		}
		if !seen[s] {
			seen[s] = true
			work = append(work, s)
		}
	}
	for len(work) > 0 {
		id := work[len(work)-1]
		work = work[:len(work)-1]
		n := f.Nodes[id]
		for _, e := range n.Succs {
			if edgeOK != nil && !edgeOK(n, e) {
				continue
			}
			if seen[e.To] {
				continue
			}
			t := f.Nodes[e.To]
			if stop != nil && stop(t) {
				continue
			}
			seen[e.To] = true
			work = append(work, e.To)
		}
	}
	return seen
}

// succsOf returns the successor ids of the given nodes (used to start a search "after" a node).
func (f *Flat) succsOf(ids ...int) []int {
	var r []int
	for _, id := range ids {
		for _, e := range f.Nodes[id].Succs {
			r = append(r, e.To)
		}
	}
	return r
}

// Match returns the ids of nodes satisfying pred.
func (f *Flat) Match(pred func(*GNode) bool) []int {
	var r []int
	for _, n := range f.Nodes {
		if n.Ast != nil && pred(n) {
			r = append(r, n.ID)
		}
	}
	return r
}

// Exits returns all exit nodes; ReturnExits only those with an explicit or implicit normal return
// (blocks ended by a no-return call such as panic are excluded).
func (f *Flat) Exits() []int {
	var r []int
	for _, n := range f.Nodes {
		if n.Exit {
			r = append(r, n.ID)
		}
	}
	return r
}

func (f *Flat) isNoReturnExit(n *GNode) bool {
	if !n.Exit || n.Ast == nil {
		return false
	}
	if es, ok := n.Ast.(*ast.ExprStmt); ok {
		if c, ok := es.X.(*ast.CallExpr); ok {
			return !f.P.mayReturn(f.Pkg)(c)
		}
	}
	return false
}

// MustPrecede reports whether every path from the entry to target passes through
// a node of set A first. It returns a witness path start (the target) when not.
func (f *Flat) MustPrecede(A map[int]bool, target int) bool {
	if A[f.Entry] {
		return true
	}
	if target == f.Entry {
		return false
	}
	seen := f.Reach([]int{f.Entry}, func(n *GNode) bool { return A[n.ID] }, nil)
	return !seen[target]
}

// ReachableFromAvoiding reports whether target is reachable from the successors of
// `from` without passing through nodes of avoid.
func (f *Flat) ReachableAfter(from int, target map[int]bool, avoid map[int]bool) bool {
	start := []int{}
	for _, s := range f.succsOf(from) {
		if avoid != nil && avoid[s] {
			continue
		}
		start = append(start, s)
	}
	seen := f.Reach(start, func(n *GNode) bool { return avoid != nil && avoid[n.ID] }, nil)
	for t := range target {
		if seen[t] {
			return true
		}
	}
	return false
}

func setOf(ids []int) map[int]bool {
	m := map[int]bool{}
	for _, i := range ids {
		m[i] = true
	}
	return m
}

// ---------------------------------------------------------------------------
// AST helpers

// walkNoLit walks n without descending into function literals.
func walkNoLit(n ast.Node, fn func(ast.Node) bool) {
	if n == nil {
		return
	}
	ast.Inspect(n, func(x ast.Node) bool {
		if x == nil {
			return false
		}
		if _, ok := x.(*ast.FuncLit); ok && x != n {
			return false
		}
		return fn(x)
	})
}

// callsIn returns the call expressions inside n in evaluation-like order (inner
// calls and arguments before the call that uses them: sorted by end position).
// Function literal bodies are skipped unless lits is true.
func callsIn(n ast.Node, lits bool) []*ast.CallExpr {
	var res []*ast.CallExpr
	if n == nil {
		return nil
	}
	ast.Inspect(n, func(y ast.Node) bool {
		if y == nil {
			return false
		}
		if _, ok := y.(*ast.FuncLit); ok && !lits && y != n {
			return false
		}
		if c, ok := y.(*ast.CallExpr); ok {
			res = append(res, c)
		}
		return true
	})
	sort.SliceStable(res, func(i, j int) bool { return res[i].End() < res[j].End() })
	return res
}

// calleeKeys resolves the possible callees of a call: the static callee, or for an
// interface method call the methods of all product types implementing the interface.
// The abstract method key is always included as well.
func (p *Prog) calleeKeys(pkg *packages.Package, c *ast.CallExpr) []string {
	fn := typeutil.Callee(pkg.TypesInfo, c)
	f, ok := fn.(*types.Func)
	if !ok || f == nil {
		return nil
	}
	f = f.Origin()
	keys := []string{fkey(f)}
	if f.Pkg() != nil && strings.HasPrefix(f.Pkg().Path(), modPrefix) {
		keys = append(keys, p.forwardsTo(keys[0], 0)...)
	}
	if sig, ok := f.Type().(*types.Signature); ok && sig.Recv() != nil {
		if _, isIface := sig.Recv().Type().Underlying().(*types.Interface); isIface {
			// field-sensitive resolution through the constructor wiring, CHA as fallback
			if sel, ok := ast.Unparen(c.Fun).(*ast.SelectorExpr); ok {
				if inner, ok := ast.Unparen(sel.X).(*ast.SelectorExpr); ok {
					if fv, ok := pkg.TypesInfo.Uses[inner.Sel].(*types.Var); ok && fv.IsField() {
						if ts := p.fieldTypes(fv); len(ts) > 0 {
							for _, t := range p.throughDecorators(ts, sig.Recv().Type(), 0) {
								obj, _, _ := types.LookupFieldOrMethod(t, true, nil, f.Name())
								if m, ok := obj.(*types.Func); ok {
									keys = append(keys, fkey(m))
									// a method that only forwards its parameters (host.MkdirAll = os.MkdirAll) stands for
									// what it forwards to
									keys = append(keys, p.forwardsTo(fkey(m), 0)...)
								}
							}
							return keys
						}
					}
				}
			}
			for _, m := range p.implementers(f) {
				keys = append(keys, fkey(m))
			}
		}
	}
	return keys
}

// forwardsTo: the functions a pure forwarder hands its parameters to, unchanged and in order (body = one call).
func (p *Prog) forwardsTo(key string, depth int) []string {
	fi := p.Func(key)
	if fi == nil || fi.Decl.Body == nil || len(fi.Decl.Body.List) != 1 || depth > 2 {
		return nil
	}
	var c *ast.CallExpr
	switch st := fi.Decl.Body.List[0].(type) {
	case *ast.ReturnStmt:
		if len(st.Results) == 1 {
			c, _ = ast.Unparen(st.Results[0]).(*ast.CallExpr)
		}
	case *ast.ExprStmt:
		c, _ = ast.Unparen(st.X).(*ast.CallExpr)
	}
	if c == nil {
		return nil
	}
	info := fi.Pkg.TypesInfo
	var params []types.Object
	for _, fld := range fi.Decl.Type.Params.List {
		for _, nm := range fld.Names {
			params = append(params, info.Defs[nm])
		}
	}
	if len(params) != len(c.Args) {
		return nil
	}
	for i, a := range c.Args {
		id, ok := ast.Unparen(a).(*ast.Ident)
		if !ok || info.Uses[id] != params[i] || id.Name == "_" {
			return nil
		}
	}
	fn, _ := typeutil.Callee(info, c).(*types.Func)
	if fn == nil {
		return nil
	}
	// only package-level functions: a method call on the receiver's state (t.m.Lock()) is not forwarding
	if sig, _ := fn.Type().(*types.Signature); sig == nil || sig.Recv() != nil {
		return nil
	}
	out := []string{fkey(fn.Origin())}
	return append(out, p.forwardsTo(out[0], depth+1)...)
}

// throughDecorators adds, for every concrete type that is a decorator of the interface
// (a module struct holding a field of that very interface type), the types wired into
// that field: a call through the decorator reaches the decorated implementation too.
func (p *Prog) throughDecorators(ts []types.Type, iface types.Type, depth int) []types.Type {
	out := append([]types.Type{}, ts...)
	if depth > 2 {
		return out
	}
	for _, t := range ts {
		bt := t
		if pt, ok := bt.(*types.Pointer); ok {
			bt = pt.Elem()
		}
		st, ok := bt.Underlying().(*types.Struct)
		if !ok {
			continue
		}
		for i := 0; i < st.NumFields(); i++ {
			fv := st.Field(i)
			if !types.Identical(fv.Type(), iface) {
				continue
			}
			for _, in := range p.throughDecorators(p.fieldTypes(fv), iface, depth+1) {
				dup := false
				for _, x := range out {
					if types.Identical(x, in) {
						dup = true
					}
				}
				if !dup {
					out = append(out, in)
				}
			}
		}
	}
	return out
}

func (p *Prog) callIs(pkg *packages.Package, c *ast.CallExpr, keys ...string) bool {
	for _, k := range p.calleeKeys(pkg, c) {
		for _, want := range keys {
			if k == want || (strings.HasPrefix(k, "(") && toggleRecvStar(k) == want) {
				return true
			}
		}
	}
	return false
}

// nodeCalls reports whether the node contains (outside function literals) a call to one of keys.
func (f *Flat) nodeCalls(n *GNode, keys ...string) *ast.CallExpr {
	if n.Ast == nil {
		return nil
	}
	if _, ok := n.Ast.(*ast.DeferStmt); ok {
		return nil // a deferred call does not execute here
	}
	if _, ok := n.Ast.(*ast.GoStmt); ok {
		return nil
	}
	for _, c := range callsIn(n.Ast, false) {
		if f.callIs(c, keys...) {
			return c
		}
	}
	return nil
}

// CallNodes returns the ids of nodes that call one of keys (deferred / go statements excluded).
func (f *Flat) CallNodes(keys ...string) []int {
	return f.Match(func(n *GNode) bool { return f.nodeCalls(n, keys...) != nil })
}

// ReturnNodes returns nodes that are return statements, plus the implicit fall-off exit.
func (f *Flat) ReturnNodes() []int {
	var r []int
	for _, n := range f.Nodes {
		if !n.Exit {
			continue
		}
		if f.isNoReturnExit(n) {
			continue
		}
		r = append(r, n.ID)
	}
	return r
}

func (f *Flat) returnStmt(id int) *ast.ReturnStmt {
	rs, _ := f.Nodes[id].Ast.(*ast.ReturnStmt)
	return rs
}

func isNilIdent(info *types.Info, e ast.Expr) bool {
	id, ok := ast.Unparen(e).(*ast.Ident)
	if !ok {
		return false
	}
	_, isNil := info.Uses[id].(*types.Nil)
	return isNil
}

func objOf(info *types.Info, e ast.Expr) types.Object {
	switch x := ast.Unparen(e).(type) {
	case *ast.Ident:
		if o := info.Uses[x]; o != nil {
			return o
		}
		return info.Defs[x]
	}
	return nil
}

// usesObj reports whether the subtree mentions the object (function literals included).
func usesObj(info *types.Info, n ast.Node, o types.Object) bool {
	found := false
	ast.Inspect(n, func(x ast.Node) bool {
		if id, ok := x.(*ast.Ident); ok && (info.Uses[id] == o || info.Defs[id] == o) {
			found = true
		}
		return !found
	})
	return found
}

// assignedObjs returns the objects assigned/defined by an AssignStmt / DeclStmt / RangeStmt key-value expr.
func assignedObjs(info *types.Info, n ast.Node) []types.Object {
	var res []types.Object
	switch s := n.(type) {
	case *ast.AssignStmt:
		for _, l := range s.Lhs {
			if o := objOf(info, l); o != nil {
				res = append(res, o)
			}
		}
	case *ast.DeclStmt:
		if gd, ok := s.Decl.(*ast.GenDecl); ok && gd.Tok == token.VAR {
			for _, sp := range gd.Specs {
				if vs, ok := sp.(*ast.ValueSpec); ok {
					for _, nm := range vs.Names {
						if o := info.Defs[nm]; o != nil {
							res = append(res, o)
						}
					}
				}
			}
		}
	case *ast.ValueSpec:
		for _, nm := range s.Names {
			if o := info.Defs[nm]; o != nil {
				res = append(res, o)
			}
		}
	case *ast.IncDecStmt:
		if o := objOf(info, s.X); o != nil {
			res = append(res, o)
		}
	}
	return res
}

// isSuccessReturn: a return statement whose error result (last result of error type) is the nil
// identifier, or a bare/implicit return in a function without error result.
func (f *Flat) returnsNilError(id int, sig *types.Signature) (isRet bool, nilErr bool) {
	n := f.Nodes[id]
	if !n.Exit || f.isNoReturnExit(n) {
		return false, false
	}
	res := sig.Results()
	hasErr := res.Len() > 0 && isErrorType(res.At(res.Len()-1).Type())
	rs, _ := n.Ast.(*ast.ReturnStmt)
	if !hasErr {
		return true, true
	}
	if rs == nil || len(rs.Results) == 0 {
		// bare return with named results: unknown error value
		return true, false
	}
	last := rs.Results[len(rs.Results)-1]
	if len(rs.Results) != res.Len() {
		return true, false // return f() multi-value
	}
	return true, isNilIdent(f.Pkg.TypesInfo, last)
}

func isErrorType(t types.Type) bool {
	return types.Identical(t, types.Universe.Lookup("error").Type())
}

// Dump prints the flat CFG (debug aid).
func (f *Flat) Dump() string {
	var sb strings.Builder
	for _, n := range f.Nodes {
		desc := "<entry " + n.Block.String() + ">"
		if n.Ast != nil {
			desc = fmt.Sprintf("%T %s", n.Ast, f.P.pos(n.Ast))
			if e, ok := n.Ast.(ast.Expr); ok {
				desc += " " + types.ExprString(e)
			}
		}
		fmt.Fprintf(&sb, "%3d cond=%v exit=%v %s ->", n.ID, n.IsCond, n.Exit, desc)
		for _, e := range n.Succs {
			fmt.Fprintf(&sb, " %d/%d", e.To, e.Label)
		}
		sb.WriteString("\n")
	}
	return sb.String()
}

// ReachNil is Reach with nil-facts: along each path it remembers which variables were found nil / non-nil by
// "x == nil" / "x != nil" tests (under any number of negations) and copies the fact through plain "y := x"
// assignments, so that a path that finds the same value nil in a helper and non-nil in its caller (or twice
// in a row) is not followed. Any other assignment forgets the fact. Without nil tests it equals Reach.
func (f *Flat) ReachNil(start []int, stop func(*GNode) bool) map[int]bool {
	info := f.Pkg.TypesInfo
	type state struct {
		id    int
		facts string
	}
	enc := func(m map[types.Object]bool) string {
		var ks []string
		for o, v := range m {
			ks = append(ks, fmt.Sprintf("%p=%v", o, v))
		}
		sort.Strings(ks)
		return strings.Join(ks, ";")
	}
	seenState := map[state]bool{}
	seen := map[int]bool{}
	type item struct {
		id    int
		facts map[types.Object]bool // true = known nil, false = known non-nil
	}
	var work []item
	push := func(id int, facts map[types.Object]bool) {
		k := state{id, enc(facts)}
		if seenState[k] {
			return
		}
		seenState[k] = true
		seen[id] = true
		work = append(work, item{id, facts})
	}
	for _, s := range start {
		if stop != nil && stop(f.Nodes[s]) {
			continue
		}
		push(s, map[types.Object]bool{})
	}
	clone := func(m map[types.Object]bool) map[types.Object]bool {
		c := make(map[types.Object]bool, len(m)+1)
		for k, v := range m {
			c[k] = v
		}
		return c
	}
	for len(work) > 0 {
		it := work[len(work)-1]
		work = work[:len(work)-1]
		n := f.Nodes[it.id]
		facts := it.facts
		if n.IsCond {
			e := n.Ast.(ast.Expr)
			neg := false
			for {
				e = ast.Unparen(e)
				if u, ok := e.(*ast.UnaryExpr); ok && u.Op == token.NOT {
					neg = !neg
					e = u.X
					continue
				}
				break
			}
			if x := isNilCompare(info, e); x != nil {
				if o := objOf(info, x); o != nil {
					nilLabel := 1
					if e.(*ast.BinaryExpr).Op == token.NEQ {
						nilLabel = 2
					}
					if neg {
						nilLabel = 3 - nilLabel
					}
					for _, ed := range n.Succs {
						wantNil := ed.Label == nilLabel
						if v, known := facts[o]; known && v != wantNil {
							continue
						}
						if stop != nil && stop(f.Nodes[ed.To]) {
							continue
						}
						nf := clone(facts)
						nf[o] = wantNil
						push(ed.To, nf)
					}
					continue
				}
			}
		} else if n.Ast != nil {
			as, isAs := n.Ast.(*ast.AssignStmt)
			assigned := assignedObjs(info, n.Ast)
			if len(assigned) > 0 {
				nf := clone(facts)
				for _, o := range assigned {
					delete(nf, o)
				}
				if isAs && len(as.Lhs) == len(as.Rhs) {
					for i := range as.Lhs {
						l, r := objOf(info, as.Lhs[i]), objOf(info, as.Rhs[i])
						if l != nil && r != nil {
							if v, known := facts[r]; known {
								nf[l] = v
							}
						}
						if l != nil {
							// constants of nil-ness: x = nil; x = fmt.Errorf(...) / errors.New(...) / &T{...}
							switch rhs := ast.Unparen(as.Rhs[i]).(type) {
							case *ast.Ident:
								if isNilIdent(info, rhs) {
									nf[l] = true
								}
							case *ast.CallExpr:
								if isFunc(info, rhs, "fmt", "Errorf") || isFunc(info, rhs, "errors", "New") {
									nf[l] = false
								}
							case *ast.UnaryExpr:
								if rhs.Op == token.AND {
									nf[l] = false // the address of anything is not nil
								}
							case *ast.SelectorExpr:
								// a sentinel: a package-level error variable (return fs_db.ErrNoFreeSpace)
								if certainlyNonNilError(info, rhs) {
									nf[l] = false
								}
							}
							if id, isId := ast.Unparen(as.Rhs[i]).(*ast.Ident); isId && !isNilIdent(info, id) && certainlyNonNilError(info, id) {
								nf[l] = false
							}
						}
					}
				}
				facts = nf
			}
		}
		for _, ed := range n.Succs {
			if stop != nil && stop(f.Nodes[ed.To]) {
				continue
			}
			push(ed.To, facts)
		}
	}
	return seen
}

// MustPrecedeNil is MustPrecede on nil-fact-pruned paths.
func (f *Flat) MustPrecedeNil(A map[int]bool, target int) bool {
	if A[f.Entry] {
		return true
	}
	if target == f.Entry {
		return false
	}
	return !f.ReachNil([]int{f.Entry}, func(n *GNode) bool { return A[n.ID] })[target]
}

// reachingDef is one assignment of a variable that can be the last one before a node.
type reachingDef struct {
	Node int
	Rhs  ast.Expr // the assigned expression (for a multi-value call: the call), nil for declarations without value
}

// ReachingDefs returns the assignments of o that reach node id (searching backwards, stopping at each assignment).
func (f *Flat) ReachingDefs(id int, o types.Object) []reachingDef {
	info := f.Pkg.TypesInfo
	var res []reachingDef
	seen := map[int]bool{}
	work := append([]int{}, f.Nodes[id].Preds...)
	for len(work) > 0 {
		n := f.Nodes[work[len(work)-1]]
		work = work[:len(work)-1]
		if seen[n.ID] {
			continue
		}
		seen[n.ID] = true
		assigned := false
		if n.Ast != nil {
			switch st := n.Ast.(type) {
			case *ast.AssignStmt:
				for i, l := range st.Lhs {
					if objOf(info, l) == o {
						assigned = true
						switch {
						case len(st.Lhs) == len(st.Rhs):
							res = append(res, reachingDef{n.ID, st.Rhs[i]})
						case len(st.Rhs) == 1:
							res = append(res, reachingDef{n.ID, st.Rhs[0]})
						}
					}
				}
			case *ast.ValueSpec:
				for i, nm := range st.Names {
					if info.Defs[nm] == o {
						assigned = true
						if len(st.Values) == len(st.Names) {
							res = append(res, reachingDef{n.ID, st.Values[i]})
						} else {
							res = append(res, reachingDef{n.ID, nil})
						}
					}
				}
			default:
				for _, a := range assignedObjs(info, n.Ast) {
					if a == o {
						assigned = true
						res = append(res, reachingDef{n.ID, nil})
					}
				}
			}
		}
		if !assigned {
			work = append(work, n.Preds...)
		}
	}
	return res
}

// NodeContaining returns the id of the node whose syntax tree contains x (by identity, function literals
// included; deferred registrations excluded), or -1. Unlike a position comparison it is safe on graphs with
// spliced-in helpers, whose synthetic binding statements span unrelated source ranges.
func (f *Flat) NodeContaining(x ast.Node) int {
	res := -1
	for _, n := range f.Nodes {
		if n.Ast == nil || res >= 0 {
			continue
		}
		if _, isDefer := n.Ast.(*ast.DeferStmt); isDefer {
			continue
		}
		ast.Inspect(n.Ast, func(y ast.Node) bool {
			if y == x {
				res = n.ID
			}
			return res < 0
		})
	}
	return res
}

// Origins follows an expression back through plain variable copies (reaching definitions, including the synthetic
// bindings of spliced-in helpers) and returns the expressions the value can come from: calls, literals,
// parameters (identifiers without a definition in the graph), field reads.
func (f *Flat) Origins(node int, e ast.Expr) []ast.Expr {
	info := f.Pkg.TypesInfo
	var res []ast.Expr
	seen := map[string]bool{}
	var walk func(node int, e ast.Expr, depth int)
	walk = func(node int, e ast.Expr, depth int) {
		e = ast.Unparen(e)
		id, ok := e.(*ast.Ident)
		if !ok || depth > 8 {
			res = append(res, e)
			return
		}
		o := objOf(info, id)
		if o == nil {
			res = append(res, e)
			return
		}
		k := fmt.Sprintf("%d/%p", node, o)
		if seen[k] {
			return
		}
		seen[k] = true
		defs := f.ReachingDefs(node, o)
		if len(defs) == 0 {
			res = append(res, e)
			return
		}
		for _, d := range defs {
			if d.Rhs == nil {
				res = append(res, e)
				continue
			}
			walk(d.Node, d.Rhs, depth+1)
		}
	}
	walk(node, e, 0)
	return res
}

// callIs is Prog.callIs plus the calls of a function-typed parameter that a spliced-in helper's binding ties to a
// declared function or a method value of the module: write(p, rw.checkErr) with "err = admit()" inside.
func (f *Flat) callIs(c *ast.CallExpr, keys ...string) bool {
	if f.P.callIs(f.Pkg, c, keys...) {
		return true
	}
	if f.Alias == nil {
		return false
	}
	o := objOf(f.Pkg.TypesInfo, c.Fun)
	if o == nil {
		return false
	}
	for i := 0; i < 4 && o != nil; i++ {
		a, ok := f.Alias[o]
		if !ok {
			return false
		}
		var id *ast.Ident
		switch x := ast.Unparen(a).(type) {
		case *ast.Ident:
			id = x
		case *ast.SelectorExpr:
			id = x.Sel
		}
		if id == nil {
			return false
		}
		if fn, ok := f.Pkg.TypesInfo.Uses[id].(*types.Func); ok {
			k := fkey(fn.Origin())
			for _, want := range keys {
				if k == want || (strings.HasPrefix(k, "(") && toggleRecvStar(k) == want) {
					return true
				}
			}
			return false
		}
		o = f.Pkg.TypesInfo.Uses[id]
	}
	return false
}
