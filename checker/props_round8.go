package main

// Rules added in round 8 (found while mutation-checking refactored trees: the same change was not reported on the
// pinned tree either).

import (
	"go/ast"
	"strings"
)

func init() {
	wrap := func(id string, extra func(p *Prog, r *Report)) {
		old := registry[id]
		registry[id] = func(p *Prog, r *Report) {
			old(p, r)
			extra(p, r)
		}
	}
	for id, rule := range map[string]string{"C02": "C02.h", "C09": "C09.k"} {
		id, rule := id, rule
		wrap(id, func(p *Prog, r *Report) {
			r.Rule(rule, "every version stored in a transaction is linked into the all-store: the function that pushes the version's node into the transaction's list pushes the node's link into the all-store on every path (ReadUncommitted readers and the collector see versions through the all-store only)")
			c02LinkedIntoAllStore(p, r, rule)
		})
	}
}

func c02LinkedIntoAllStore(p *Prog, r *Report, rule string) {
	fi := p.Func(kStoreToTx)
	if fi == nil {
		r.Undecided(rule, kStoreToTx, "", "the function that stores a version in a transaction was not found")
		return
	}
	info := fi.Pkg.TypesInfo
	f := p.FlatInl(fi)
	recvName := ""
	if fi.Decl.Recv != nil && len(fi.Decl.Recv.List) == 1 && len(fi.Decl.Recv.List[0].Names) == 1 {
		recvName = fi.Decl.Recv.List[0].Names[0].Name
	}
	isAll := func(c *ast.CallExpr) bool {
		sel, ok := ast.Unparen(c.Fun).(*ast.SelectorExpr)
		if !ok {
			return false
		}
		path := f.CanonPath(sel.X)
		raw := exprPath(sel.X)
		if strings.HasSuffix(raw, "."+allStoreField) || strings.HasSuffix(path, "."+allStoreField) {
			return true
		}
		// a method of the all-store's own type pushing into its receiver
		return allStoreWrapper != "" && recvDeclTypeName(fi.Decl) == allStoreWrapper && raw == recvName
	}
	var allPush, txPush []int
	var linkArgs []ast.Expr
	for _, s := range f.CallSites(kTxPushBack) {
		if isAll(s.Call) {
			allPush = append(allPush, s.Node)
			if len(s.Call.Args) == 1 {
				linkArgs = append(linkArgs, s.Call.Args[0])
			}
		} else {
			txPush = append(txPush, s.Node)
		}
	}
	cons := kStoreToTx + "#link-pushed-into-the-all-store"
	if len(txPush) == 0 {
		r.Undecided(rule, cons, p.pos(fi.Decl), "the push into the transaction's list was not found")
		return
	}
	ok := len(allPush) > 0
	bad := "no PushBack on the all-store"
	// after a push into the transaction's list neither an exit nor the next push is reached without the push into
	// the all-store (the function may store several versions in a loop, or none)
	allSet := setOf(allPush)
	for _, t := range txPush {
		var start []int
		for _, sid := range f.succsOf(t) {
			if !allSet[sid] {
				start = append(start, sid)
			}
		}
		reach := f.Reach(start, func(n *GNode) bool { return allSet[n.ID] }, nil)
		if ok && reach[t] {
			ok, bad = false, "the next version is pushed before the link of this one"
		}
		for _, e := range f.Exits() {
			if ok && reach[e] && !f.isNoReturnExit(f.Nodes[e]) && !allSet[e] {
				// (the all-store push may precede the transaction push)
				if !f.MustPrecede(allSet, t) {
					ok, bad = false, "an exit is reached without the push into the all-store"
				}
			}
		}
	}
	// what is pushed is the link of the node pushed into the transaction: the argument of SetLink
	if ok {
		linked := false
		// (the pushed variable and the SetLink argument may be different names of one node: results of a helper that
		// builds the pair, parameters of a helper that pushes it)
		same := map[string]bool{}
		for _, la := range linkArgs {
			if o := objOf(info, la); o != nil {
				same[objID(o)] = true
			}
		}
		for changed := true; changed; {
			changed = false
			for _, n := range f.Nodes {
				as, isAs := n.Ast.(*ast.AssignStmt)
				if !isAs || len(as.Lhs) != len(as.Rhs) {
					continue
				}
				for i := range as.Lhs {
					lo, ro := objOf(info, as.Lhs[i]), objOf(info, as.Rhs[i])
					if lo == nil || ro == nil {
						continue
					}
					if same[objID(lo)] != same[objID(ro)] {
						same[objID(lo)], same[objID(ro)] = true, true
						changed = true
					}
				}
			}
		}
		visit := func(x ast.Node) bool {
			if c, isCall := x.(*ast.CallExpr); isCall {
				if sel, isSel := ast.Unparen(c.Fun).(*ast.SelectorExpr); isSel && sel.Sel.Name == "SetLink" && len(c.Args) == 1 {
					if o := objOf(info, c.Args[0]); o != nil && same[objID(o)] {
						linked = true
					}
				}
			}
			return true
		}
		for _, n := range f.Nodes {
			if n.Ast != nil {
				ast.Inspect(n.Ast, visit)
			}
		}
		if !linked {
			ok, bad = false, "the node pushed into the all-store is not the link (SetLink argument) of the node pushed into the transaction"
		}
	}
	r.Check(ok, rule, cons, p.pos(fi.Decl), "the link of every stored node is pushed into the all-store", "a version is stored in its transaction without its link in the all-store ("+bad+"): ReadUncommitted readers never see it and the collector never reclaims it")
}
