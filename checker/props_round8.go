package main

// Rules added in round 8 (found while mutation-checking refactored trees: the same change was not reported on the
// pinned tree either).

import (
	"go/ast"
	"strings"
)

func init() {
	wrap := func(id string, extra func(p *Prog, r *Report)) {
		old := registry[id]
		registry[id] = func(p *Prog, r *Report) {
			old(p, r)
			extra(p, r)
		}
	}
	for id, rule := range map[string]string{"C02": "C02.h", "C09": "C09.k"} {
		id, rule := id, rule
		wrap(id, func(p *Prog, r *Report) {
			r.Rule(rule, "every version stored in a transaction is linked into the all-store: the function that pushes the version's node into the transaction's list pushes the node's link into the all-store on every path (ReadUncommitted readers and the collector see versions through the all-store only)")
			c02LinkedIntoAllStore(p, r, rule)
		})
	}
}

func c02LinkedIntoAllStore(p *Prog, r *Report, rule string) {
	fi := p.Func(kStoreToTx)
	if fi == nil {
		r.Undecided(rule, kStoreToTx, "", "the function that stores a version in a transaction was not found")
		return
	}
	info := fi.Pkg.TypesInfo
	f := p.FlatInl(fi)
	recvName := ""
	if fi.Decl.Recv != nil && len(fi.Decl.Recv.List) == 1 && len(fi.Decl.Recv.List[0].Names) == 1 {
		recvName = fi.Decl.Recv.List[0].Names[0].Name
	}
	isAll := func(c *ast.CallExpr) bool {
		sel, ok := ast.Unparen(c.Fun).(*ast.SelectorExpr)
		if !ok {
			return false
		}
		path := f.CanonPath(sel.X)
		raw := exprPath(sel.X)
		if strings.HasSuffix(raw, "."+allStoreField) || strings.HasSuffix(path, "."+allStoreField) {
			return true
		}
		// a method of the all-store's own type pushing into its receiver
		return allStoreWrapper != "" && recvDeclTypeName(fi.Decl) == allStoreWrapper && raw == recvName
	}
	var allPush, txPush []int
	var linkArgs []ast.Expr
	for _, s := range f.CallSites(kTxPushBack) {
		if isAll(s.Call) {
			allPush = append(allPush, s.Node)
			if len(s.Call.Args) == 1 {
				linkArgs = append(linkArgs, s.Call.Args[0])
			}
		} else {
			txPush = append(txPush, s.Node)
		}
	}
	cons := kStoreToTx + "#link-pushed-into-the-all-store"
	if len(txPush) == 0 {
		r.Undecided(rule, cons, p.pos(fi.Decl), "the push into the transaction's list was not found")
		return
	}
	ok := len(allPush) > 0
	bad := "no PushBack on the all-store"
	for _, e := range f.Exits() {
		if f.isNoReturnExit(f.Nodes[e]) {
			continue
		}
		if ok && !f.MustPrecede(setOf(allPush), e) {
			ok, bad = false, "an exit is reached without the push into the all-store"
		}
	}
	// what is pushed is the link of the node pushed into the transaction: the argument of SetLink
	if ok {
		linked := false
		visit := func(x ast.Node) bool {
			if c, isCall := x.(*ast.CallExpr); isCall {
				if sel, isSel := ast.Unparen(c.Fun).(*ast.SelectorExpr); isSel && sel.Sel.Name == "SetLink" && len(c.Args) == 1 {
					for _, la := range linkArgs {
						if o := objOf(info, la); o != nil && objOf(info, c.Args[0]) == o {
							linked = true
						}
					}
				}
			}
			return true
		}
		for _, n := range f.Nodes {
			if n.Ast != nil {
				ast.Inspect(n.Ast, visit)
			}
		}
		if !linked {
			ok, bad = false, "the node pushed into the all-store is not the link (SetLink argument) of the node pushed into the transaction"
		}
	}
	r.Check(ok, rule, cons, p.pos(fi.Decl), "the link of every stored node is pushed into the all-store", "a version is stored in its transaction without its link in the all-store ("+bad+"): ReadUncommitted readers never see it and the collector never reclaims it")
}
