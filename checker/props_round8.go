package main

// Rules added in round 8 (found while mutation-checking refactored trees: the same change was not reported on the
// pinned tree either).

import (
	"fmt"
	"go/ast"
	"go/constant"
	"go/token"
	"go/types"
	"strings"
)

func init() {
	wrap := func(id string, extra func(p *Prog, r *Report)) {
		old := registry[id]
		registry[id] = func(p *Prog, r *Report) {
			old(p, r)
			extra(p, r)
		}
	}
	for id, rule := range map[string]string{"C02": "C02.h", "C09": "C09.k"} {
		id, rule := id, rule
		wrap(id, func(p *Prog, r *Report) {
			r.Rule(rule, "every version stored in a transaction is linked into the all-store: the function that pushes the version's node into the transaction's list pushes the node's link into the all-store on every path (ReadUncommitted readers and the collector see versions through the all-store only)")
			c02LinkedIntoAllStore(p, r, rule)
		})
	}
}

func c02LinkedIntoAllStore(p *Prog, r *Report, rule string) {
	fi := p.Func(kStoreToTx)
	if fi == nil {
		r.Undecided(rule, kStoreToTx, "", "the function that stores a version in a transaction was not found")
		return
	}
	info := fi.Pkg.TypesInfo
	f := p.FlatInl(fi)
	recvName := ""
	if fi.Decl.Recv != nil && len(fi.Decl.Recv.List) == 1 && len(fi.Decl.Recv.List[0].Names) == 1 {
		recvName = fi.Decl.Recv.List[0].Names[0].Name
	}
	isAll := func(c *ast.CallExpr) bool {
		sel, ok := ast.Unparen(c.Fun).(*ast.SelectorExpr)
		if !ok {
			return false
		}
		path := f.CanonPath(sel.X)
		raw := exprPath(sel.X)
		if strings.HasSuffix(raw, "."+allStoreField) || strings.HasSuffix(path, "."+allStoreField) {
			return true
		}
		// a method of the all-store's own type pushing into its receiver
		return allStoreWrapper != "" && recvDeclTypeName(fi.Decl) == allStoreWrapper && raw == recvName
	}
	var allPush, txPush []int
	var linkArgs []ast.Expr
	for _, s := range f.CallSites(kTxPushBack) {
		if isAll(s.Call) {
			allPush = append(allPush, s.Node)
			if len(s.Call.Args) == 1 {
				linkArgs = append(linkArgs, s.Call.Args[0])
			}
		} else {
			txPush = append(txPush, s.Node)
		}
	}
	cons := kStoreToTx + "#link-pushed-into-the-all-store"
	if len(txPush) == 0 {
		r.Undecided(rule, cons, p.pos(fi.Decl), "the push into the transaction's list was not found")
		return
	}
	ok := len(allPush) > 0
	bad := "no PushBack on the all-store"
	// after a push into the transaction's list neither an exit nor the next push is reached without the push into
	// the all-store (the function may store several versions in a loop, or none)
	allSet := setOf(allPush)
	for _, t := range txPush {
		var start []int
		for _, sid := range f.succsOf(t) {
			if !allSet[sid] {
				start = append(start, sid)
			}
		}
		reach := f.Reach(start, func(n *GNode) bool { return allSet[n.ID] }, nil)
		if ok && reach[t] {
			ok, bad = false, "the next version is pushed before the link of this one"
		}
		for _, e := range f.Exits() {
			if ok && reach[e] && !f.isNoReturnExit(f.Nodes[e]) && !allSet[e] {
				// (the all-store push may precede the transaction push)
				if !f.MustPrecede(allSet, t) {
					ok, bad = false, "an exit is reached without the push into the all-store"
				}
			}
		}
	}
	// what is pushed is the link of the node pushed into the transaction: the argument of SetLink
	if ok {
		linked := false
		// (the pushed variable and the SetLink argument may be different names of one node: results of a helper that
		// builds the pair, parameters of a helper that pushes it)
		same := map[string]bool{}
		for _, la := range linkArgs {
			if o := objOf(info, la); o != nil {
				same[objID(o)] = true
			}
		}
		for changed := true; changed; {
			changed = false
			for _, n := range f.Nodes {
				as, isAs := n.Ast.(*ast.AssignStmt)
				if !isAs || len(as.Lhs) != len(as.Rhs) {
					continue
				}
				for i := range as.Lhs {
					lo, ro := objOf(info, as.Lhs[i]), objOf(info, as.Rhs[i])
					if lo == nil || ro == nil {
						continue
					}
					if same[objID(lo)] != same[objID(ro)] {
						same[objID(lo)], same[objID(ro)] = true, true
						changed = true
					}
				}
			}
		}
		visit := func(x ast.Node) bool {
			if c, isCall := x.(*ast.CallExpr); isCall {
				if sel, isSel := ast.Unparen(c.Fun).(*ast.SelectorExpr); isSel && sel.Sel.Name == "SetLink" && len(c.Args) == 1 {
					if o := objOf(info, c.Args[0]); o != nil && same[objID(o)] {
						linked = true
					}
				}
			}
			return true
		}
		for _, n := range f.Nodes {
			if n.Ast != nil {
				ast.Inspect(n.Ast, visit)
			}
		}
		if !linked {
			ok, bad = false, "the node pushed into the all-store is not the link (SetLink argument) of the node pushed into the transaction"
		}
	}
	r.Check(ok, rule, cons, p.pos(fi.Decl), "the link of every stored node is pushed into the all-store", "a version is stored in its transaction without its link in the all-store ("+bad+"): ReadUncommitted readers never see it and the collector never reclaims it")
}

// ---- rules from the sixth round of seeded changes ---------------------------------------------------------------

func init() {
	wrap := func(id string, extra func(p *Prog, r *Report)) {
		old := registry[id]
		registry[id] = func(p *Prog, r *Report) {
			old(p, r)
			extra(p, r)
		}
	}
	wrap("C16", func(p *Prog, r *Report) {
		r.Rule("C16.g", "the running flag is kept only by a run that is up: after Run has taken the flag, every exit either has installed the job channel (Stop has something to close) or gives the flag back")
		c16RunKeepsFlagOnlyWhenUp(p, r, "C16.g")
	})
	wrap("C11", func(p *Prog, r *Report) {
		r.Rule("C11.n", "the adapter decides the class of an error with errors.Is / errors.As only: it does not walk the chain by hand (errors.Unwrap stops at joined and multi-%w errors) and does not compare an error with a sentinel by ==")
		c11ClassByIsOnly(p, r, "C11.n")
	})
	for id, rule := range map[string]string{"C10": "C10.m", "C12": "C12.j"} {
		id, rule := id, rule
		wrap(id, func(p *Prog, r *Report) {
			r.Rule(rule, "the part of the content that reached the full directory stays readable for the retry: content files are created read-write, and on the not-enough-space path the created file is neither closed nor removed and the fields of the retry request are not replaced after it was built")
			c10PrefixStaysReadable(p, r, rule)
		})
	}
}

// c16RunKeepsFlagOnlyWhenUp (seeded C16-B, round 6): an early return of Run between taking the running flag and
// installing context / channel / workers leaves the pool "running" with nothing to stop: the next Stop closes a nil or
// already closed channel, the next Run is refused.
func c16RunKeepsFlagOnlyWhenUp(p *Prog, r *Report, rule string) {
	fi := p.Func(kPoolRun)
	if fi == nil {
		r.Undecided(rule, kPoolRun, "", "Pool.Run not found")
		return
	}
	info := fi.Pkg.TypesInfo
	f := p.FlatInl(fi)
	// the states after the flag was taken: the false edge of `!p.runM.TryLock()` / the true edge of `p.runM.TryLock()`
	var after []int
	for _, n := range f.Nodes {
		if !n.IsCond {
			continue
		}
		e := ast.Unparen(n.Ast.(ast.Expr))
		neg := false
		if u, ok := e.(*ast.UnaryExpr); ok && u.Op == token.NOT {
			neg, e = true, ast.Unparen(u.X)
		}
		c, ok := e.(*ast.CallExpr)
		if !ok {
			continue
		}
		if op := p.lockOpOf(fi.Pkg, c); op == nil || !op.Try || op.Class != clsRunM {
			continue
		}
		for _, ed := range n.Succs {
			if (ed.Label == 2) == neg {
				after = append(after, ed.To)
			}
		}
	}
	cons := kPoolRun + "#flag-kept-only-when-up"
	if len(after) == 0 {
		r.Undecided(rule, cons, p.pos(fi.Decl), "the try-lock of the running flag was not found in Run")
		return
	}
	ok := func(n *GNode) bool {
		if n.Ast == nil {
			return false
		}
		// the channel is installed ...
		if as, isAs := n.Ast.(*ast.AssignStmt); isAs {
			for _, l := range as.Lhs {
				if sel, isSel := ast.Unparen(l).(*ast.SelectorExpr); isSel && sel.Sel.Name == poolFields.Ch {
					if fv, isVar := info.Uses[sel.Sel].(*types.Var); isVar && fv.IsField() {
						return true
					}
				}
			}
		}
		// ... or the flag is given back
		for _, c := range callsIn(n.Ast, false) {
			if op := p.lockOpOf(fi.Pkg, c); op != nil && !op.Acquire && op.Class == clsRunM {
				return true
			}
		}
		return false
	}
	reach := f.Reach(after, ok, nil)
	bad := ""
	for _, s := range after {
		if !ok(f.Nodes[s]) {
			reach[s] = true
		}
	}
	for _, e := range f.Exits() {
		if reach[e] && !ok(f.Nodes[e]) && !f.isNoReturnExit(f.Nodes[e]) {
			bad = p.pos(f.Nodes[e].Ast)
		}
	}
	r.Check(bad == "", rule, cons, p.pos(fi.Decl), "after the flag is taken every exit has installed the channel or released the flag",
		"Run can return at "+bad+" holding the running flag without having installed the job channel: Stop then closes a nil (or already closed) channel and panics, and no later Run is accepted")
}

// c11ClassByIsOnly (seeded C11-B, round 6).
func c11ClassByIsOnly(p *Prog, r *Report, rule string) {
	n := 0
	for _, k := range sortedFuncKeys(p) {
		fi := p.Funcs[k]
		if fi.Decl == nil || fi.Decl.Body == nil || shortPath(fi.Pkg.PkgPath) != pkgAdapterErr {
			continue
		}
		n++
		info := fi.Pkg.TypesInfo
		sent := rootSentinels(p)
		isSentinel := func(e ast.Expr) bool {
			switch x := ast.Unparen(e).(type) {
			case *ast.Ident:
				_, ok := sent[info.Uses[x]]
				return ok
			case *ast.SelectorExpr:
				_, ok := sent[info.Uses[x.Sel]]
				return ok
			}
			return false
		}
		bad, at := "", ast.Node(nil)
		ast.Inspect(fi.Decl.Body, func(x ast.Node) bool {
			switch y := x.(type) {
			case *ast.CallExpr:
				if isFunc(info, y, "errors", "Unwrap") {
					bad, at = "walks the chain with errors.Unwrap", y
				}
			case *ast.BinaryExpr:
				if (y.Op == token.EQL || y.Op == token.NEQ) && (isSentinel(y.X) || isSentinel(y.Y)) {
					bad, at = "compares an error with a sentinel by "+y.Op.String(), y
				}
			case *ast.SwitchStmt:
				if y.Tag != nil {
					if tv, ok := info.Types[y.Tag]; ok && isErrorType(tv.Type) {
						for _, cl := range y.Body.List {
							if cc, isCC := cl.(*ast.CaseClause); isCC {
								for _, ce := range cc.List {
									if isSentinel(ce) {
										bad, at = "switches on an error value against sentinels (identity comparison)", y
									}
								}
							}
						}
					}
				}
			}
			return true
		})
		if bad != "" {
			r.Viol(rule, k+"#class-by-errors.Is", p.pos(at), k+" "+bad+": an error that joins or multi-wraps a sentinel (errors.Join, two %w) is sent without its class and arrives as ErrUnknown")
		}
	}
	if n > 0 {
		r.Hold(rule, "adapter-functions", "", fmt.Sprintf("%d functions of the adapter inspected", n))
	} else {
		r.Undecided(rule, "adapter-functions", "", "no function of the error adapter found")
	}
}

// c10PrefixStaysReadable (seeded C10-A, C10-B, round 6).
func c10PrefixStaysReadable(p *Prog, r *Report, rule string) {
	// (1) utils/os.Create opens read-write
	if cr := p.Func("internal/utils/os.Create"); cr != nil {
		info := cr.Pkg.TypesInfo
		good, seen := true, false
		detail := ""
		var visit func(g *FuncInfo, bind map[types.Object]ast.Expr, bindInfo *types.Info, depth int)
		visit = func(g *FuncInfo, bind map[types.Object]ast.Expr, bindInfo *types.Info, depth int) {
			ginfo := g.Pkg.TypesInfo
			ast.Inspect(g.Decl.Body, func(x ast.Node) bool {
				c, ok := x.(*ast.CallExpr)
				if !ok {
					return true
				}
				switch {
				case isFunc(ginfo, c, "os", "Create"):
					seen = true
				case isFunc(ginfo, c, "os", "OpenFile") && len(c.Args) == 3:
					seen = true
					fl, finfo := c.Args[1], ginfo
					// (the flags may be a parameter of a helper that Create calls with a constant)
					if o := objOf(ginfo, fl); o != nil && bind[o] != nil {
						fl, finfo = bind[o], bindInfo
					}
					if v, isC := constInt(finfo, fl); isC {
						// O_RDONLY = 0, O_WRONLY = 1, O_RDWR = 2 in the low bits
						if v&3 != 2 {
							good = false
							detail = "os.OpenFile is called without O_RDWR"
						}
					} else {
						good = false
						detail = "the flags of os.OpenFile are not a constant the rule can read"
					}
				default:
					if h := p.staticCallee(g.Pkg, c); h != nil && h.Pkg == g.Pkg && h.Decl != nil && h.Decl.Body != nil && depth < 2 && h != g {
						nb := map[types.Object]ast.Expr{}
						args := argExprs(c, h)
						for i, po := range paramObjs(h) {
							if po != nil && i >= 0 && args[i] != nil {
								nb[po] = args[i]
							}
						}
						visit(h, nb, ginfo, depth+1)
					}
				}
				return true
			})
		}
		visit(cr, nil, info, 0)
		if !seen {
			r.Undecided(rule, "internal/utils/os.Create#read-write", p.pos(cr.Decl), "neither os.Create nor os.OpenFile is called")
		} else {
			r.Check(good, rule, "internal/utils/os.Create#read-write", p.pos(cr.Decl), "content files are created read-write",
				detail+": the file that took the first part of a content cannot be read back when the write continues in another directory (the retry fails with 'bad file descriptor' although there is room)")
		}
	} else {
		r.Undecided(rule, "internal/utils/os.Create", "", "utils/os.Create not found")
	}
	// (2) on the not-enough-space path of content.Store the file stays open and in place, the request stays as built
	cs := p.Func(kContentStore)
	if cs == nil {
		r.Undecided(rule, kContentStore, "", "content.Store not found")
		return
	}
	info := cs.Pkg.TypesInfo
	flats := []*Flat{p.FlatInl(cs)}
	ast.Inspect(cs.Decl.Body, func(x ast.Node) bool {
		if fl, ok := x.(*ast.FuncLit); ok {
			flats = append(flats, p.NewFlatInl(cs, fl.Body))
		}
		return true
	})
	// the created file
	filePath := ""
	for _, c := range flats[0].CallSites("internal/utils/os.Create") {
		if as, ok := flats[0].Nodes[c.Node].Ast.(*ast.AssignStmt); ok && len(as.Lhs) >= 1 {
			filePath = flats[0].CanonPath(as.Lhs[0])
		}
	}
	found := false
	for _, g := range flats {
		var lits []int
		for _, n := range g.Nodes {
			if n.Ast == nil {
				continue
			}
			has := false
			ast.Inspect(n.Ast, func(x ast.Node) bool {
				if cl, ok := x.(*ast.CompositeLit); ok {
					if tv, ok := info.Types[cl]; ok && strings.HasSuffix(tv.Type.String(), tNES) {
						has = true
					}
				}
				return true
			})
			if has {
				lits = append(lits, n.ID)
			}
		}
		if len(lits) == 0 {
			continue
		}
		found = true
		cons := kContentStore + "#prefix-file-kept-for-the-retry"
		// nodes on a path through the construction of the request
		fwd := g.Reach(lits, nil, nil)
		onPath := func(id int) bool {
			if fwd[id] {
				return true
			}
			back := g.Reach([]int{id}, nil, nil)
			for _, l := range lits {
				if back[l] {
					return true
				}
			}
			return false
		}
		bad, at := "", ast.Node(nil)
		for _, n := range g.Nodes {
			if n.Ast == nil || !onPath(n.ID) {
				continue
			}
			for _, c := range callsIn(n.Ast, false) {
				if sel, ok := ast.Unparen(c.Fun).(*ast.SelectorExpr); ok && sel.Sel.Name == "Close" && filePath != "" && g.CanonPath(sel.X) == filePath {
					bad, at = "closes the created file", c
				}
				if p.callIs(cs.Pkg, c, "internal/utils/os.Remove") || isFunc(info, c, "os", "Remove") {
					bad, at = "removes the created file", c
				}
			}
			if as, ok := n.Ast.(*ast.AssignStmt); ok {
				for _, l := range as.Lhs {
					if sel, ok := ast.Unparen(l).(*ast.SelectorExpr); ok && (sel.Sel.Name == "Start" || sel.Sel.Name == "Middle" || sel.Sel.Name == "End") {
						if tv, ok := info.Types[sel.X]; ok && strings.HasSuffix(tv.Type.String(), tNES) {
							bad, at = "replaces "+sel.Sel.Name+" of the retry request after it was built", as
						}
					}
				}
			}
		}
		// (a close of the file on a path that also builds the request: only when both are on one path; the plain
		// "else close" branch is not)
		if bad != "" {
			// confirm that the offending node and the construction are on one path in either order: done by onPath
			r.Viol(rule, cons, p.pos(at), "on the path that answers not-enough-space content.Store "+bad+": the bytes already written there are not replayed, the value stored in the next directory silently lacks its beginning")
		} else {
			r.Hold(rule, cons, p.pos(cs.Decl), "the created file stays open and in place, the request is handed out as built")
		}
	}
	if !found {
		r.Undecided(rule, kContentStore+"#prefix-file-kept-for-the-retry", p.pos(cs.Decl), "the construction of the retry request was not found")
	}
}

func init() {
	old := registry["C18"]
	registry["C18"] = func(p *Prog, r *Report) {
		old(p, r)
		r.Rule("C18.e", "the snapshot lookup as a whole: LastBefore, with the search and every short cut in front of it, evaluated on sorted mirrors of one to three versions for every position of the probe relative to them (below, equal to, between, above), answers the newest version strictly before the probe, the zero version when there is none")
		c18LastBeforeAsAWhole(p, r, "C18.e")
	}
}

// c18LastBeforeAsAWhole (seeded C18-B, round 6: a short cut for "the newest version is not newer than the point",
// right for every probe but the one that equals the newest version).
func c18LastBeforeAsAWhole(p *Prog, r *Report, rule string) {
	lb := p.Func(kLastBefore)
	if lb == nil {
		r.Undecided(rule, kLastBefore, "", "LastBefore not found")
		return
	}
	info := lb.Pkg.TypesInfo
	var recv types.Object
	if lb.Decl.Recv != nil && len(lb.Decl.Recv.List) == 1 && len(lb.Decl.Recv.List[0].Names) == 1 {
		recv = info.Defs[lb.Decl.Recv.List[0].Names[0]]
	}
	var probe types.Object
	for _, fld := range lb.Decl.Type.Params.List {
		for _, nm := range fld.Names {
			probe = info.Defs[nm]
		}
	}
	cons := kLastBefore + "#agrees-with-the-linear-specification"
	if recv == nil || probe == nil {
		r.Undecided(rule, cons, p.pos(lb.Decl), "receiver / probe parameter not found")
		return
	}
	seqs := []int64{2, 4, 6}
	cases, bad := 0, ""
	for n := 1; n <= 3; n++ {
		for pr := int64(0); pr <= 7; pr++ { // (0: the point below every possible version)
			var elems []*Val
			for i := 0; i < n; i++ {
				elems = append(elems, &Val{Ptr: &Val{Fields: map[string]*Val{"v": {Fields: map[string]*Val{"Seq": intVal(seqs[i]), "Key": strVal("k")}, Complete: true}}, Complete: true}})
			}
			want := int64(0)
			for i := 0; i < n; i++ {
				if seqs[i] < pr {
					want = seqs[i]
				}
			}
			fv := &Val{Ptr: &Val{Fields: map[string]*Val{fileFields.Arr: {IsSlice: true, Elems: elems}}}}
			env := &Env{P: p, Pkg: lb.Pkg, Vars: map[types.Object]*Val{recv: fv, probe: intVal(pr)}}
			env.Hook = func(e *Env, x ast.Expr) (*Val, bool) {
				// the newest version of the same list (a short cut may answer with it): the last element of the mirror
				if c, ok := x.(*ast.CallExpr); ok && len(c.Args) == 0 && (p.callIs(e.Pkg, c, "(*internal/model/core.file).Latest") || p.callIs(e.Pkg, c, "(*internal/model/core.List).Back")) {
					last := elems[len(elems)-1]
					if p.callIs(e.Pkg, c, "(*internal/model/core.List).Back") {
						return last, true
					}
					return last.Ptr.Fields["v"], true
				}
				// ptr.Val(x): the pointee, the zero value for nil
				if c, ok := x.(*ast.CallExpr); ok && len(c.Args) == 1 && p.callIs(e.Pkg, c, "internal/utils/ptr.Val") {
					v := e.eval(c.Args[0])
					if v == nil || v.Nil {
						return &Val{Fields: map[string]*Val{}, Complete: true}, true
					}
					if v.Ptr != nil {
						return v.Ptr, true
					}
					return v, true
				}
				return nil, false
			}
			got, err := func() (v *Val, err error) {
				defer func() {
					if rec := recover(); rec != nil {
						if ee, ok := rec.(evalErr); ok {
							err = ee
							return
						}
						panic(rec)
					}
				}()
				ret, done := env.execBlock(lb.Decl.Body.List)
				if !done || len(ret) != 1 {
					return nil, evalErr{"no single result"}
				}
				return ret[0], nil
			}()
			if err != nil {
				r.Undecided(rule, cons, p.pos(lb.Decl), fmt.Sprintf("LastBefore is outside the evaluator's fragment (%v)", err))
				return
			}
			cases++
			gotSeq := int64(0)
			for got != nil && got.Ptr != nil {
				got = got.Ptr
			}
			if got != nil && got.Fields != nil {
				if sv := got.Fields["Seq"]; sv != nil && sv.C != nil {
					gotSeq, _ = constant.Int64Val(sv.C)
				}
			}
			if gotSeq != want && bad == "" {
				bad = fmt.Sprintf("versions %v, snapshot point %d: LastBefore answers version %d, the newest version strictly before the point is %d (0 = none)", seqs[:n], pr, gotSeq, want)
			}
		}
	}
	r.Check(bad == "", rule, cons, p.pos(lb.Decl), fmt.Sprintf("%d mirror / probe arrangements agree with the linear specification", cases),
		"the snapshot lookup answers wrongly: "+bad+": a snapshot reader sees a version that was not committed before its snapshot point (or misses one that was)")
}

func init() {
	wrap := func(id string, extra func(p *Prog, r *Report)) {
		old := registry[id]
		registry[id] = func(p *Prog, r *Report) {
			old(p, r)
			extra(p, r)
		}
	}
	for id, rule := range map[string]string{"C06": "C06.i", "C09": "C09.l", "C08": "C08.f"} {
		id, rule := id, rule
		wrap(id, func(p *Prog, r *Report) {
			r.Rule(rule, "the collector's horizon is held back by every registered transaction: the registry's Oldest answers its first element whatever that transaction's fields say (no test of the isolation level or of anything else of the transaction decides which one is answered)")
			c09OldestAnswersTheFirst(p, r, rule)
		})
	}
	wrap("C01", func(p *Prog, r *Report) {
		r.Rule("C01.j", "the version points at the content that was stored: once the version's ContentId has been taken from the content record's Id, that Id is not changed again before the records are written (or the version's ContentId is set from it again)")
		c01VersionPointsAtStoredContent(p, r, "C01.j")
	})
}

// c09OldestAnswersTheFirst (seeded C06-A, round 6: ReadCommitted transactions skipped "because they always read the
// latest version"; between looking a version up and opening its content a reader is protected only by the horizon).
func c09OldestAnswersTheFirst(p *Prog, r *Report, rule string) {
	k := "(*internal/repository/transaction.Repo).Oldest"
	fi := p.Func(k)
	if fi == nil {
		r.Undecided(rule, k, "", "the registry's Oldest not found")
		return
	}
	info := fi.Pkg.TypesInfo
	f := p.FlatInl(fi)
	bad := ""
	n := 0
	for _, gn := range f.Nodes {
		if !gn.IsCond || gn.Ast == nil {
			continue
		}
		n++
		ast.Inspect(gn.Ast, func(x ast.Node) bool {
			if sel, ok := x.(*ast.SelectorExpr); ok {
				if tv, ok := info.Types[sel.X]; ok && strings.HasSuffix(strings.TrimPrefix(tv.Type.String(), "*"), "internal/model.Transaction") {
					if s := info.Selections[sel]; s != nil && s.Kind() == types.FieldVal {
						bad = p.pos(gn.Ast) + ": " + types.ExprString(gn.Ast.(ast.Expr))
					}
				}
			}
			return true
		})
	}
	r.Check(bad == "", rule, k+"#answers-the-first-registered", p.pos(fi.Decl), fmt.Sprintf("no condition of Oldest (%d, helpers included) looks at the transaction it answers", n),
		"Oldest chooses by a property of the transaction ("+bad+"): a registered transaction can be passed over, the collector's horizon moves past its snapshot point and removes versions (and contents) it is still reading - a key that has a value throughout is reported missing")
}

// c01VersionPointsAtStoredContent (seeded C01-A, round 6: a fresh content id per attempt while the version keeps the
// first one: after a retry in another directory the stored value looks like a tombstone).
func c01VersionPointsAtStoredContent(p *Prog, r *Report, rule string) {
	fi := p.Func(kStoreSet)
	if fi == nil {
		r.Undecided(rule, kStoreSet, "", "store.Set not found")
		return
	}
	info := fi.Pkg.TypesInfo
	f := p.FlatInlExcept(fi, kContentStore, kCFStore, kCoreStore)
	isField := func(e ast.Expr, typeSuffix, field string) bool {
		sel, ok := ast.Unparen(e).(*ast.SelectorExpr)
		if !ok || sel.Sel.Name != field {
			return false
		}
		tv, ok := info.Types[sel.X]
		return ok && strings.HasSuffix(strings.TrimPrefix(tv.Type.String(), "*"), typeSuffix)
	}
	var idWrites, syncs []int
	for _, gn := range f.Nodes {
		as, ok := gn.Ast.(*ast.AssignStmt)
		if !ok || gn.Synth != "" {
			continue
		}
		for i, l := range as.Lhs {
			if isField(l, "internal/model.ContentFile", "Id") {
				idWrites = append(idWrites, gn.ID)
			}
			if isField(l, "internal/model.File", "ContentId") && len(as.Rhs) == len(as.Lhs) {
				if isField(as.Rhs[i], "internal/model.ContentFile", "Id") {
					syncs = append(syncs, gn.ID)
				}
			}
		}
	}
	writes := f.CallNodes(kCFStore, kCoreStore)
	cons := kStoreSet + "#content-id-fixed-once"
	if len(writes) == 0 {
		r.Undecided(rule, cons, p.pos(fi.Decl), "the record writes of store.Set were not found")
		return
	}
	bad := ""
	for _, w := range idWrites {
		reach := f.Reach(f.succsOf(w), func(n *GNode) bool { return setOf(syncs)[n.ID] }, nil)
		for _, s := range f.succsOf(w) {
			if !setOf(syncs)[s] {
				reach[s] = true
			}
		}
		for _, wr := range writes {
			if reach[wr] {
				bad = p.pos(f.Nodes[w].Ast)
			}
		}
	}
	r.Check(bad == "", rule, cons, p.pos(fi.Decl), fmt.Sprintf("the content record's Id is not changed after the version took it (%d later assignments, all followed by a re-assignment of the version's ContentId)", len(idWrites)),
		"the content record's Id is assigned again at "+bad+" while the version keeps the id it was given before: the version points at a content record that does not exist, which is how a deleted key looks - the write is acknowledged and the key reads as not found")
}

func init() {
	wrap := func(id string, extra func(p *Prog, r *Report)) {
		old := registry[id]
		registry[id] = func(p *Prog, r *Report) {
			old(p, r)
			extra(p, r)
		}
	}
	for id, rule := range map[string]string{"C03": "C03.k", "C07": "C07.d", "C02": "C02.i"} {
		id, rule := id, rule
		wrap(id, func(p *Prog, r *Report) {
			r.Rule(rule, "every write reaches the store: no Set / SetReader / Delete of the client layers (inline db, the transaction handle, the gRPC client) reports success without having handed the write on - a write that looks redundant to its caller (same bytes, key not visible) still enters the transaction's write set, decides conflicts and is what other readers see")
			c03EveryWriteIsHandedOn(p, r, rule)
		})
	}
	wrap("C17", func(p *Prog, r *Report) {
		r.Rule("C17.o", "every configured root is served: each iteration of the loop over the configured roots in dir.New either fails the construction or records the root in the registry's list of roots (a root equal to one already recorded may be skipped)")
		c17EveryRootRegistered(p, r, "C17.o")
		r.Rule("C17.p", "ParseDir is the inverse of Dir.Path: the root and the name it answers are path.Dir and path.Base of the path (Dir.Path joins them with path.Join), so that a re-activated directory is registered under the very root string the registry and the free-space table use")
		c17ParseDirInvertsPath(p, r, "C17.p")
	})
	wrap("C19", func(p *Prog, r *Report) {
		r.Rule("C19.j", "ids are generated in the form the decoder renders: the decoder formats ids with uuid.UUID.String (canonical, 36 characters), so the generator must hand out uuid.NewString() / uuid.UUID.String() values - any other spelling of the same 16 bytes is encoded without complaint and comes back as a different string, under which no record is keyed")
		c19GeneratorIsCanonical(p, r, "C19.j")
	})
}

// c03EveryWriteIsHandedOn (seeded C03-A, C03-B, C02-B, round 6).
func c03EveryWriteIsHandedOn(p *Prog, r *Report, rule string) {
	forward := map[string]map[string]bool{
		"Set":       {"Set": true, "SetReader": true, "SetFile": true},
		"SetReader": {"Set": true, "SetReader": true, "SetFile": true},
		"Delete":    {"Delete": true, "DeleteFile": true},
	}
	n := 0
	for _, owner := range [][2]string{{"pkg/inline/db", "db"}, {".", "tx"}, {"pkg/external/db", "db"}} {
		keys := p.methodsOfWithEmbedded(owner[0], owner[1])
		if owner[0] == "." {
			// the transaction handle of the root package, under whatever name and however it is split: every struct
			// type there that has the three write methods
			keys = nil
			if pkg := p.Pkg("."); pkg != nil {
				for _, tn := range pkg.Types.Scope().Names() {
					o, ok := pkg.Types.Scope().Lookup(tn).(*types.TypeName)
					if !ok {
						continue
					}
					nt, ok := o.Type().(*types.Named)
					if !ok {
						continue
					}
					if _, isStruct := nt.Underlying().(*types.Struct); !isStruct {
						continue
					}
					have := map[string]string{}
					for i := 0; i < nt.NumMethods(); i++ {
						have[nt.Method(i).Name()] = fkey(nt.Method(i))
					}
					if have["Set"] != "" && have["SetReader"] != "" && have["Delete"] != "" {
						keys = append(keys, have["Set"], have["SetReader"], have["Delete"])
					}
				}
			}
		}
		for _, mk := range keys {
			fi := p.Funcs[mk]
			if fi == nil || fi.Decl == nil || fi.Decl.Body == nil {
				continue
			}
			m := fi.Decl.Name.Name
			names, isWrite := forward[m]
			if !isWrite {
				continue
			}
			n++
			// (the hand-over may sit in a helper of the package: db.storeSet, db.openUpload)
			f := p.FlatInl(fi)
			hand := f.Match(func(gn *GNode) bool {
				if _, isDefer := gn.Ast.(*ast.DeferStmt); isDefer {
					return false
				}
				for _, c := range callsIn(gn.Ast, false) {
					if sel, ok := ast.Unparen(c.Fun).(*ast.SelectorExpr); ok && names[sel.Sel.Name] {
						return true
					}
				}
				return false
			})
			cons := fi.Key + "#write-handed-on"
			bad := ""
			for _, id := range f.successReturns(fi) {
				// (a return of the forwarding call itself is the hand-over)
				if setOf(hand)[id] {
					continue
				}
				if !f.MustPrecede(setOf(hand), id) {
					bad = p.pos(f.Nodes[id].Ast)
				}
			}
			// a function that returns the forwarding call's error directly has no nil return: fine
			r.Check(bad == "" && len(hand) > 0, rule, cons, p.pos(fi.Decl), "every success return follows the hand-over of the write",
				fi.Key+" can report success at "+bad+" without having handed the write on: the write never enters the transaction's write set, so it is not published at commit, raises no conflict, and other readers keep seeing what it should have replaced")
		}
	}
	r.Floor(rule, "client-write-methods", n, 8)
}

// c17EveryRootRegistered (seeded C17-A, round 6).
func c17EveryRootRegistered(p *Prog, r *Report, rule string) {
	k := "internal/repository/dir.New"
	fi := p.Func(k)
	if fi == nil {
		r.Undecided(rule, k, "", "dir.New not found")
		return
	}
	info := fi.Pkg.TypesInfo
	var param types.Object
	for _, fld := range fi.Decl.Type.Params.List {
		for _, nm := range fld.Names {
			param = info.Defs[nm]
		}
	}
	var loop *ast.RangeStmt
	for _, rs := range rangeLoops(fi.Decl.Body) {
		if objOf(info, rs.X) == param {
			loop = rs
		}
	}
	cons := k + "#every-root-recorded"
	if loop == nil || loop.Value == nil {
		r.Undecided(rule, cons, p.pos(fi.Decl), "loop over the configured roots not found")
		return
	}
	rootObj := objOf(info, loop.Value)
	body := p.NewFlat(fi.Pkg, loop.Body)
	isRootsField := func(e ast.Expr) bool {
		e = ast.Unparen(e)
		if ix, ok := e.(*ast.IndexExpr); ok {
			e = ast.Unparen(ix.X)
		}
		sel, ok := e.(*ast.SelectorExpr)
		if !ok {
			return false
		}
		fv, ok := info.Uses[sel.Sel].(*types.Var)
		if !ok || !fv.IsField() {
			return false
		}
		sl, ok := fv.Type().Underlying().(*types.Slice)
		return ok && types.Identical(sl.Elem(), types.Typ[types.String])
	}
	rec := body.Match(func(n *GNode) bool {
		as, ok := n.Ast.(*ast.AssignStmt)
		if !ok {
			return false
		}
		for i, l := range as.Lhs {
			if isRootsField(l) && i < len(as.Rhs) && usesObj(info, as.Rhs[i], rootObj) {
				return true
			}
			if isRootsField(l) && len(as.Rhs) == 1 && usesObj(info, as.Rhs[0], rootObj) {
				return true
			}
		}
		return false
	})
	if len(rec) == 0 {
		// the list of roots may be the parameter itself, kept as it is
		r.Hold(rule, cons, p.pos(loop), "the registry keeps the configured list itself")
		return
	}
	// a skip of a root that is already recorded (slices.Contains(roots, root)) is not a loss
	g := body.WithoutEdges(func(from *GNode, e Edge) bool {
		if !from.IsCond {
			return false
		}
		c, ok := ast.Unparen(from.Ast.(ast.Expr)).(*ast.CallExpr)
		if ok && isFunc(info, c, "slices", "Contains") && len(c.Args) == 2 && usesObj(info, c.Args[1], rootObj) {
			return e.Label == 1
		}
		return false
	})
	reach := g.Reach([]int{g.Entry}, func(n *GNode) bool { return setOf(rec)[n.ID] }, nil)
	bad := ""
	for _, e := range g.Exits() {
		if !reach[e] || setOf(rec)[e] {
			continue
		}
		if _, isRet := g.Nodes[e].Ast.(*ast.ReturnStmt); isRet {
			continue // the construction fails
		}
		bad = p.pos(g.Nodes[e].Ast)
		if g.Nodes[e].Ast == nil {
			bad = "the end of the loop body"
		}
	}
	r.Check(bad == "", rule, cons, p.pos(loop), "every iteration records its root or fails",
		"an iteration over the configured roots can end at "+bad+" without recording the root: that root never gets a directory, never receives content, and its directories are ignored after a reopen")
}

// c17ParseDirInvertsPath (seeded C17-B, round 6).
func c17ParseDirInvertsPath(p *Prog, r *Report, rule string) {
	k := "internal/model.ParseDir"
	fi := p.Func(k)
	if fi == nil {
		r.Undecided(rule, k, "", "ParseDir not found")
		return
	}
	info := fi.Pkg.TypesInfo
	var param types.Object
	for _, fld := range fi.Decl.Type.Params.List {
		for _, nm := range fld.Names {
			param = info.Defs[nm]
		}
	}
	f := p.FlatOf(fi)
	cons := k + "#root-and-name"
	good, n := true, 0
	detail := ""
	isPathFn := func(e ast.Expr, node int, name string) bool {
		for _, o := range f.Origins(node, e) {
			c, ok := ast.Unparen(o).(*ast.CallExpr)
			if !ok || !(isFunc(info, c, "path", name) || isFunc(info, c, "path/filepath", name)) || len(c.Args) != 1 || objOf(info, c.Args[0]) != param {
				return false
			}
		}
		return true
	}
	for _, id := range f.ReturnNodes() {
		rs := f.returnStmt(id)
		if rs == nil || len(rs.Results) != 1 {
			continue
		}
		cl, ok := ast.Unparen(rs.Results[0]).(*ast.CompositeLit)
		if !ok {
			for _, o := range f.Origins(id, rs.Results[0]) {
				if c, isLit := ast.Unparen(o).(*ast.CompositeLit); isLit {
					cl, ok = c, true
				}
			}
		}
		if !ok {
			good, detail = false, "a return that is not a Dir literal"
			continue
		}
		n++
		fields := map[string]ast.Expr{}
		for _, el := range cl.Elts {
			if kv, isKV := el.(*ast.KeyValueExpr); isKV {
				if key, isId := kv.Key.(*ast.Ident); isId {
					fields[key.Name] = kv.Value
				}
			}
		}
		if fields["Root"] == nil || !isPathFn(fields["Root"], id, "Dir") {
			good, detail = false, "Root is not path.Dir of the path"
		}
		if fields["Name"] == nil || !isPathFn(fields["Name"], id, "Base") {
			good, detail = false, "Name is not path.Base of the path"
		}
	}
	r.Check(good && n > 0, rule, cons, p.pos(fi.Decl), "Root = path.Dir(p), Name = path.Base(p)",
		"ParseDir does not split the path the way Dir.Path joined it ("+detail+"): for some roots (the file-system root, a root given without a separator) a re-activated directory is registered under another root string than the one the registry measures, reports no free space and is never written to again")
}

// c19GeneratorIsCanonical (seeded C19-A, round 6).
func c19GeneratorIsCanonical(p *Prog, r *Report, rule string) {
	k := "(*internal/utils/generator.Gen).Generate"
	fi := p.Func(k)
	if fi == nil {
		r.Undecided(rule, k, "", "the id generator was not found")
		return
	}
	info := fi.Pkg.TypesInfo
	f := p.FlatOf(fi)
	good, n := true, 0
	for _, id := range f.ReturnNodes() {
		rs := f.returnStmt(id)
		if rs == nil || len(rs.Results) != 1 {
			continue
		}
		n++
		for _, o := range f.Origins(id, rs.Results[0]) {
			c, ok := ast.Unparen(o).(*ast.CallExpr)
			if !ok {
				good = false
				continue
			}
			fn, _ := typeutilCallee(info, c)
			if fn == nil || fn.Pkg() == nil || !strings.HasSuffix(fn.Pkg().Path(), "google/uuid") || (fn.Name() != "NewString" && fn.Name() != "String") {
				good = false
			}
		}
	}
	r.Check(good && n > 0, rule, k+"#canonical-form", p.pos(fi.Decl), "ids are uuid.NewString() / UUID.String() values",
		"the generator hands out ids that are not in the canonical form the record decoder renders: every id is stored without complaint and read back as a different string; after a restart no content record, content file or version record is found under the id the versions carry")
}

// methodsOfWithEmbedded: the methods declared on the type and on the struct types of its package it embeds (a handle
// split into a store half and a commit half keeps its role).
func (p *Prog) methodsOfWithEmbedded(pkgShort, typeName string) []string {
	res := p.methodsOf(pkgShort, typeName)
	pkg := p.Pkg(pkgShort)
	if pkg == nil {
		return res
	}
	// the actual type behind the role
	var owner *types.Named
	if len(res) > 0 {
		if fi := p.Funcs[res[0]]; fi != nil && fi.Sig() != nil && fi.Sig().Recv() != nil {
			t := fi.Sig().Recv().Type()
			if pt, ok := t.(*types.Pointer); ok {
				t = pt.Elem()
			}
			owner, _ = t.(*types.Named)
		}
	}
	if owner == nil {
		for _, n := range pkg.Types.Scope().Names() {
			if tn, ok := pkg.Types.Scope().Lookup(n).(*types.TypeName); ok && (n == typeName || canonTypeName(pkgShort+"."+n) == pkgShort+"."+typeName) {
				owner, _ = tn.Type().(*types.Named)
			}
		}
	}
	seen := map[string]bool{}
	var walk func(nt *types.Named, depth int)
	walk = func(nt *types.Named, depth int) {
		if nt == nil || depth > 3 {
			return
		}
		st, ok := nt.Underlying().(*types.Struct)
		if !ok {
			return
		}
		for i := 0; i < st.NumFields(); i++ {
			f := st.Field(i)
			if !f.Embedded() {
				continue
			}
			t := f.Type()
			if pt, ok := t.(*types.Pointer); ok {
				t = pt.Elem()
			}
			et, ok := t.(*types.Named)
			if !ok || et.Obj().Pkg() != pkg.Types || seen[et.Obj().Name()] {
				continue
			}
			if _, isStruct := et.Underlying().(*types.Struct); !isStruct {
				continue
			}
			seen[et.Obj().Name()] = true
			res = append(res, p.methodsOf(pkgShort, et.Obj().Name())...)
			walk(et, depth+1)
		}
	}
	walk(owner, 0)
	return res
}

func init() {
	wrap := func(id string, extra func(p *Prog, r *Report)) {
		old := registry[id]
		registry[id] = func(p *Prog, r *Report) {
			old(p, r)
			extra(p, r)
		}
	}
	for id, rule := range map[string]string{"C14": "C14.k", "C13": "C13.k", "C09": "C09.m"} {
		id, rule := id, rule
		wrap(id, func(p *Prog, r *Report) {
			r.Rule(rule, "a registered transaction always reaches its owner: once the registry's Store has succeeded Begin returns the id (or takes the registration back): it has no failure return after the registration, because a transaction nobody holds the id of can never be finished and pins the collector's horizon for the life of the process")
			c14BeginNeverOrphans(p, r, rule)
		})
	}
	for id, rule := range map[string]string{"C19": "C19.k", "C14": "C14.l"} {
		id, rule := id, rule
		wrap(id, func(p *Prog, r *Report) {
			r.Rule(rule, "any key can be stored: the record encoder fails for a buffer of the wrong length or an id that is not a UUID only - no condition of marshalFile looks at the content of the key (a version record refused at the end of store.Set leaves its content and content record behind, out of reach of every reclaim path)")
			c19EncoderTakesAnyKey(p, r, rule)
		})
	}
	for id, rule := range map[string]string{"C05": "C05.h", "C18": "C18.f", "C09": "C09.n"} {
		id, rule := id, rule
		wrap(id, func(p *Prog, r *Report) {
			r.Rule(rule, "whether a store keeps the search mirror is decided where the store is built: the WithoutSearch switch is written in composite literals only (a per-key list copies it once, when it is created; a store switched during a bulk load leaves every key loaded then without a mirror for the life of the process, and snapshot readers find nothing)")
			c18SearchSwitchFixedAtConstruction(p, r, rule)
		})
	}
}

// c14BeginNeverOrphans (seeded C14-A, round 6).
func c14BeginNeverOrphans(p *Prog, r *Report, rule string) {
	fi := p.Func(kTxBegin)
	if fi == nil {
		r.Undecided(rule, kTxBegin, "", "transaction.Begin not found")
		return
	}
	f := p.FlatInl(fi)
	sites := f.CallSites(kTxRepoStore)
	cons := kTxBegin + "#no-failure-after-registration"
	if len(sites) == 0 {
		r.Undecided(rule, cons, p.pos(fi.Decl), "the registration (registry Store) was not found in Begin")
		return
	}
	sig := fi.Sig()
	undo := setOf(f.CallNodes(kTxRepoDelete))
	bad := ""
	for _, s := range sites {
		if s.Kind != "assigned" || s.ErrVar == nil {
			continue
		}
		st := f.ErrStatesFrom(s.Node, s.ErrVar)
		reach := f.Reach(f.succsOf(s.Node), func(n *GNode) bool { return undo[n.ID] }, nil)
		for _, sid := range f.succsOf(s.Node) {
			reach[sid] = true
		}
		for _, id := range f.ReturnNodes() {
			if !reach[id] {
				continue
			}
			if isRet, nilErr := f.returnsNilError(id, sig); !isRet || nilErr {
				continue
			}
			// a failure return: fine while the registration's own error may be non-nil, not otherwise
			if len(st.at(id)) == 0 {
				bad = p.pos(f.Nodes[id].Ast)
			}
		}
	}
	r.Check(bad == "", rule, cons, p.pos(fi.Decl), "after a successful registration Begin only succeeds",
		"Begin can fail at "+bad+" after the transaction has been registered and without unregistering it: the caller never learns the id, nobody can commit or roll it back, the collector's horizon stays at its sequence number and nothing overwritten or deleted afterwards is ever reclaimed")
}

// c19EncoderTakesAnyKey (seeded C14-B, round 6).
func c19EncoderTakesAnyKey(p *Prog, r *Report, rule string) {
	fi := p.Func(kMarshal)
	if fi == nil {
		r.Undecided(rule, kMarshal, "", "marshalFile not found")
		return
	}
	info := fi.Pkg.TypesInfo
	f := p.FlatInl(fi)
	bad := ""
	for _, gn := range f.Nodes {
		if !gn.IsCond || gn.Ast == nil {
			continue
		}
		ast.Inspect(gn.Ast, func(x ast.Node) bool {
			// len(f.Key) is the length the buffer is checked against: not a look at the content
			if c, ok := x.(*ast.CallExpr); ok {
				if id, isId := c.Fun.(*ast.Ident); isId && id.Name == "len" {
					return false
				}
				if h := p.staticCallee(fi.Pkg, c); h != nil && h.Key == "internal/repository/file.fileLen" {
					return false
				}
			}
			if sel, ok := x.(*ast.SelectorExpr); ok && sel.Sel.Name == "Key" {
				if tv, ok := info.Types[sel.X]; ok && strings.HasSuffix(strings.TrimPrefix(tv.Type.String(), "*"), "internal/model.File") {
					bad = p.pos(gn.Ast) + ": " + types.ExprString(gn.Ast.(ast.Expr))
				}
			}
			return true
		})
	}
	r.Check(bad == "", rule, kMarshal+"#no-condition-on-the-key", p.pos(fi.Decl), "the encoder's conditions look at the buffer length and the ids only",
		"the record encoder decides by the content of the key ("+bad+"): a key it refuses fails the last of store.Set's three writes, after the content file and the content record exist - they are referenced by no version and survive rollback, every collector pass and a reopen")
}

// c18SearchSwitchFixedAtConstruction (seeded C05-B, round 6).
func c18SearchSwitchFixedAtConstruction(p *Prog, r *Report, rule string) {
	n := 0
	bad := ""
	for _, k := range sortedFuncKeys(p) {
		fi := p.Funcs[k]
		if fi.Decl == nil || fi.Decl.Body == nil {
			continue
		}
		info := fi.Pkg.TypesInfo
		ast.Inspect(fi.Decl.Body, func(x ast.Node) bool {
			switch y := x.(type) {
			case *ast.KeyValueExpr:
				if id, ok := y.Key.(*ast.Ident); ok && id.Name == "WithoutSearch" {
					n++
				}
			case *ast.AssignStmt:
				for _, l := range y.Lhs {
					if sel, ok := ast.Unparen(l).(*ast.SelectorExpr); ok && sel.Sel.Name == "WithoutSearch" {
						if fv, ok := info.Uses[sel.Sel].(*types.Var); ok && fv.IsField() {
							bad = k + " at " + p.pos(y)
						}
					}
				}
			case *ast.UnaryExpr:
				if y.Op == token.AND {
					if sel, ok := ast.Unparen(y.X).(*ast.SelectorExpr); ok && sel.Sel.Name == "WithoutSearch" {
						bad = k + " at " + p.pos(y) + " (address taken)"
					}
				}
			}
			return true
		})
	}
	r.Check(bad == "", rule, "core.Transaction.WithoutSearch#written-at-construction-only", "", fmt.Sprintf("the switch is set in %d composite literal(s) and assigned nowhere", n),
		"the search switch of a store is assigned after construction ("+bad+"): the per-key lists created while it is on never get a search mirror, also for versions pushed later, so every snapshot lookup (RepeatableRead / Serializable) of those keys answers not-found although autocommit readers see the value")
}
