package main

// E5 error-flow at the CFG level: an error bound at a call site must be consumed on every
// path on which it may be non-nil: returned in a class-preserving way, passed through an
// accepted adapter whose result is returned, handed to an accepted sink, or transferred
// (wrapped/joined) into another variable that is itself consumed.

import (
	"fmt"
	"go/ast"
	"go/token"
	"go/types"
	"os"
	"strings"
)

type flowOpts struct {
	Tolerated []string // states in which ignoring the error is accepted (e.g. "is:io.EOF")
	Class     bool     // the error must keep its class where it is returned
	Through   []string // function keys: passing the error to one of these and returning the result is propagation
	Sinks     []string // function keys: passing the error (class kept) to one of these is delivery
	// SinkParams: function-typed parameters whose call with the error is delivery (the yield of an iterator)
	SinkParams map[types.Object]bool
	Require    bool // the error must pass one of Through before it is returned
	sanitised  bool // (internal) the value already passed one of Through
	depth      int
	visiting   map[string]bool // (internal) (node,var) pairs under evaluation: a cycle is accepted coinductively
}

type flowResult struct {
	OK     bool
	Detail string
	Pos    string
}

// consumes reports whether node n consumes error variable E.
func (f *Flat) consumes(fi *FuncInfo, n *GNode, E types.Object, o flowOpts) (bool, string) {
	info := f.Pkg.TypesInfo
	if n.Ast == nil {
		return false, ""
	}
	sig := fi.Sig()
	var viaAdapterFor func(e ast.Expr, E types.Object) bool
	viaAdapterFor = func(e ast.Expr, E types.Object) bool {
		found := false
		ast.Inspect(e, func(x ast.Node) bool {
			if c, ok := x.(*ast.CallExpr); ok && len(o.Through) > 0 && f.P.callIs(f.Pkg, c, o.Through...) {
				for _, a := range c.Args {
					if usesObj(info, a, E) {
						found = true
					}
				}
			}
			return !found
		})
		return found
	}
	var checkFor func(e ast.Expr, E types.Object, depth int) (bool, string)
	checkFor = func(e ast.Expr, E types.Object, depth int) (bool, string) {
		// a local closure or a one-line helper of the package that shapes the error: judged by what it returns
		//   fail := func(step string, err error) error { return fmt.Errorf("%s: %w", step, ClientError(err)) }
		if c, isCall := ast.Unparen(e).(*ast.CallExpr); isCall && depth < 3 {
			if params, ret := f.P.errShaper(fi, c); ret != nil {
				for i, a := range c.Args {
					if i >= len(params) || params[i] == nil || !isErrorType(params[i].Type()) || !usesObj(info, a, E) {
						continue
					}
					if k, _, w := keepsClass(info, a, E); !k && o.Class {
						return false, "argument of the error helper: " + w
					}
					return checkFor(ret, params[i], depth+1)
				}
			}
		}
		k, m, why := keepsClass(info, e, E)
		if !m {
			return false, ""
		}
		if o.Require && !o.sanitised && !viaAdapterFor(e, E) {
			return false, "the error reaches the caller without passing " + strings.Join(o.Through, "/")
		}
		if k {
			return true, why
		}
		// through an adapter
		if c, ok := ast.Unparen(e).(*ast.CallExpr); ok && len(o.Through) > 0 && f.P.callIs(f.Pkg, c, o.Through...) {
			for _, a := range c.Args {
				if usesObj(info, a, E) {
					k2, _, w2 := keepsClass(info, a, E)
					if k2 || !o.Class {
						return true, "through " + types.ExprString(c.Fun) + ": " + w2
					}
					return false, "adapter argument: " + w2
				}
			}
		}
		// fmt.Errorf("%w", adapter(err))
		if c, ok := ast.Unparen(e).(*ast.CallExpr); ok && isFunc(info, c, "fmt", "Errorf") && len(c.Args) > 1 {
			format, _ := constStr(info, c.Args[0])
			verbs := fmtVerbs(format)
			for i, a := range c.Args[1:] {
				if !usesObj(info, a, E) {
					continue
				}
				if ac, ok := ast.Unparen(a).(*ast.CallExpr); ok && len(o.Through) > 0 && f.P.callIs(f.Pkg, ac, o.Through...) {
					if i < len(verbs) && verbs[i] == 'w' {
						return true, "wrapped %w(adapter(err))"
					}
					return false, "adapter result wrapped without %w"
				}
			}
		}
		if !o.Class {
			return true, "used (class not required): " + why
		}
		return false, why
	}
	checkExpr := func(e ast.Expr) (bool, string) { return checkFor(e, E, 0) }
	// the decorators deferred with the address of the named error result rewrite what a return statement hands out
	decos := f.P.deferDecorators(fi)
	checkReturned := func(e ast.Expr, E types.Object) (bool, string) {
		if len(decos) == 0 {
			return checkFor(e, E, 0)
		}
		saved := o
		defer func() { o = saved }()
		for _, d := range decos {
			if viaAdapterFor(d.shape, d.param) {
				o.sanitised = true
			}
		}
		ok, why := checkFor(e, E, 0)
		if !ok {
			return ok, why
		}
		for _, d := range decos {
			if dok, dwhy := checkFor(d.shape, d.param, 1); !dok && dwhy != "" {
				return false, "the deferred " + d.callee.Obj.Name() + " rewrites the returned error: " + dwhy
			}
		}
		return true, why + ", then decorated by the deferred " + decos[0].callee.Obj.Name()
	}
	viaAdapter := func(e ast.Expr) bool { return viaAdapterFor(e, E) }
	_ = viaAdapter
	switch s := n.Ast.(type) {
	case *ast.ReturnStmt:
		if len(s.Results) == 0 {
			for i := 0; i < sig.Results().Len(); i++ {
				if sig.Results().At(i) == E {
					for _, d := range decos {
						if dok, dwhy := checkFor(d.shape, d.param, 1); !dok && dwhy != "" {
							return false, "the deferred " + d.callee.Obj.Name() + " rewrites the returned error: " + dwhy
						}
					}
					return true, "bare return of the named result"
				}
			}
			return false, ""
		}
		for _, e := range s.Results {
			if ok, why := checkReturned(e, E); ok {
				return true, why
			} else if why != "" {
				return false, why
			}
		}
		return false, ""
	case *ast.AssignStmt:
		if len(s.Lhs) == len(s.Rhs) {
			for i, rhs := range s.Rhs {
				if !usesObj(info, rhs, E) {
					continue
				}
				Y := objOf(info, s.Lhs[i])
				// a list of errors the function collects and joins at the end: errs = append(errs, err)
				if Y != nil && isErrListType(Y.Type()) {
					if ac, isCall := ast.Unparen(rhs).(*ast.CallExpr); isCall && isBuiltinCall(info, ac, "append") && len(ac.Args) >= 2 && objOf(info, ac.Args[0]) == Y && !ac.Ellipsis.IsValid() {
						if Y == E {
							return true, "re-wrapped in place: appended to the list again"
						}
						kept := false
						for _, a := range ac.Args[1:] {
							if usesObj(info, a, E) {
								ok, why := checkExpr(a)
								if !ok {
									return false, "element of the error list: " + why
								}
								kept = true
							}
						}
						if kept {
							if o.depth > 10 {
								return false, "transfer chain too deep"
							}
							o2 := o
							o2.depth++
							res := f.errorConsumed(fi, n.ID, Y, o2)
							if res.OK {
								return true, "collected in " + Y.Name()
							}
							return false, "collected in " + Y.Name() + " which is lost: " + res.Detail
						}
					}
				}
				if sel, isSel := ast.Unparen(s.Lhs[i]).(*ast.SelectorExpr); isSel && Y == nil {
					// an error-typed field of a struct that is a local variable of this function (an accumulator
					// filled through an inlined helper): the obligation moves to the field
					if root := f.CanonRoot(sel.X); root != nil && fi.body() != nil && root.Pos() >= fi.body().Pos() && root.Pos() < fi.body().End() {
						Y = errVarOf(info, sel)
					}
				}
				if Y == nil || !isErrorType(Y.Type()) {
					// field or composite: e.g. err = model.NotEnoughSpaceError{Err: err}
					continue
				}
				ok, why := checkExpr(rhs)
				if !ok {
					// composite literal embedding the error in a field named Err / wrapped struct
					if cl, isCL := ast.Unparen(rhs).(*ast.CompositeLit); isCL {
						for _, el := range cl.Elts {
							if kv, isKV := el.(*ast.KeyValueExpr); isKV && objOf(info, kv.Value) == E {
								ok, why = true, "embedded in "+types.ExprString(cl.Type)
							}
						}
					}
				}
				if !ok {
					return false, why
				}
				if Y == E {
					if viaAdapter(rhs) {
						return true, "re-wrapped in place (sanitised): " + why
					}
					return true, "re-wrapped in place: " + why // obligation continues with the same variable (handled by caller)
				}
				if o.depth > 10 {
					return false, "transfer chain too deep"
				}
				o2 := o
				o2.depth++
				if viaAdapter(rhs) {
					o2.sanitised = true
				}
				res := f.errorConsumed(fi, n.ID, Y, o2)
				if res.OK {
					return true, "transferred to " + Y.Name() + ": " + why
				}
				return false, "transferred to " + Y.Name() + " which is lost: " + res.Detail
			}
		}
	}
	// sinks
	if len(o.SinkParams) > 0 {
		for _, c := range callsIn(n.Ast, false) {
			if fo := objOf(info, c.Fun); fo != nil && o.SinkParams[fo] {
				for _, a := range c.Args {
					if usesObj(info, a, E) {
						if ok, why := checkExpr(a); ok {
							return true, "yielded to the consumer: " + why
						} else {
							return false, "yielded value: " + why
						}
					}
				}
			}
		}
	}
	if len(o.Sinks) > 0 {
		for _, c := range callsIn(n.Ast, false) {
			if os.Getenv("FSDBCHECK_DEBUG") != "" {
				fmt.Println("DEBUG sink?", f.P.pos(c), f.P.calleeKeys(f.Pkg, c), o.Sinks)
			}
			if f.P.callIs(f.Pkg, c, o.Sinks...) {
				for _, a := range c.Args {
					if usesObj(info, a, E) {
						if ok, why := checkExpr(a); ok {
							return true, "delivered to " + types.ExprString(c.Fun) + ": " + why
						} else {
							return false, "sink argument: " + why
						}
					}
				}
			}
		}
	}
	return false, ""
}

// errorConsumed decides the flow obligation for the error held by E after node A.
func (f *Flat) errorConsumed(fi *FuncInfo, A int, E types.Object, o flowOpts) flowResult {
	info := f.Pkg.TypesInfo
	if o.visiting == nil {
		o.visiting = map[string]bool{}
	}
	vk := fmt.Sprintf("%d/%p", A, E)
	if o.visiting[vk] {
		return flowResult{OK: true}
	}
	o.visiting[vk] = true
	st := f.ErrStatesFrom(A, E)
	tol := map[string]bool{}
	for _, t := range o.Tolerated {
		tol[t] = true
	}
	inRegion := func(id int) bool {
		for s := range st[id] {
			if !tol[s] {
				return true
			}
		}
		return false
	}
	// walk the region from A's successors
	seen := map[int]bool{}
	var work []int
	flows := func(from, to int) bool {
		for s := range st.along(from, to) {
			if !tol[s] {
				return true
			}
		}
		return false
	}
	for _, e := range f.Nodes[A].Succs {
		if flows(A, e.To) && !seen[e.To] {
			seen[e.To] = true
			work = append(work, e.To)
		}
	}
	for len(work) > 0 {
		id := work[len(work)-1]
		work = work[:len(work)-1]
		n := f.Nodes[id]
		if os.Getenv("FSDBCHECK_DEBUG") != "" {
			fmt.Println("DEBUG visit", id, f.P.pos(n.Ast), st.at(id))
		}
		if n.Ast != nil {
			ok, why := f.consumes(fi, n, E, o)
			if ok {
				if as, isAs := n.Ast.(*ast.AssignStmt); isAs && strings.HasPrefix(why, "re-wrapped in place") {
					_ = as
					// obligation continues from this node with the same variable
					o2 := o
					o2.depth++
					if strings.Contains(why, "(sanitised)") {
						o2.sanitised = true
					}
					if o2.depth > 10 {
						return flowResult{false, "re-wrap chain too deep", f.P.pos(n.Ast)}
					}
					res := f.errorConsumed(fi, id, E, o2)
					if !res.OK {
						return res
					}
				}
				continue
			}
			if why != "" {
				return flowResult{false, why, f.P.pos(n.Ast)}
			}
			// overwritten? (reaching the source node again with the error pending is an overwrite too, unless
			// it re-assigns the same constant sentinel)
			for _, ob := range assignedObjs(info, n.Ast) {
				if ob != E {
					continue
				}
				if id == A {
					if as, ok := n.Ast.(*ast.AssignStmt); ok && len(as.Rhs) == 1 {
						if k := exprObjKey(info, as.Rhs[0]); k != "" && !strings.HasPrefix(k, "&") {
							if _, isCall := ast.Unparen(as.Rhs[0]).(*ast.CallExpr); !isCall {
								continue
							}
						}
					}
				}
				return flowResult{false, "the error is overwritten before it is handled", f.P.pos(n.Ast)}
			}
			if n.Exit && !f.isNoReturnExit(n) {
				return flowResult{false, fmt.Sprintf("the function returns while the error may be non-nil (%s) without returning it", strings.Join(st.at(id), ",")), f.P.pos(n.Ast)}
			}
		} else if n.Exit {
			return flowResult{false, "the function ends while the error may be non-nil", ""}
		}
		for _, e := range n.Succs {
			if flows(id, e.To) && !seen[e.To] {
				seen[e.To] = true
				work = append(work, e.To)
			}
		}
	}
	_ = inRegion
	return flowResult{OK: true}
}

// SiteConsumed applies errorConsumed to a bound call site and records the obligation.
func (f *Flat) SiteConsumed(r *Report, rule, cons string, fi *FuncInfo, s callSite, o flowOpts) bool {
	p := f.P
	switch s.Kind {
	case "returned":
		r.Hold(rule, cons, p.pos(s.Call), "returned directly")
		return true
	case "assigned":
	case "arg":
		// error passed directly as an argument: accepted when the callee is an adapter/sink and the whole is returned
		n := f.Nodes[s.Node]
		if rs, ok := n.Ast.(*ast.ReturnStmt); ok {
			for _, e := range rs.Results {
				if c, ok := ast.Unparen(e).(*ast.CallExpr); ok && f.P.callIs(f.Pkg, c, o.Through...) {
					r.Hold(rule, cons, p.pos(s.Call), "passed to adapter and returned")
					return true
				}
			}
		}
		// handed straight to a class-keeping helper whose result is returned: return wrap("op", call(...))
		if rs, ok := n.Ast.(*ast.ReturnStmt); ok {
			for _, e := range rs.Results {
				if c, ok := ast.Unparen(e).(*ast.CallExpr); ok && !o.Require {
					if ok, why := p.classThrough(f.Pkg.TypesInfo, c, func(a ast.Expr) bool { return ast.Unparen(a) == ast.Expr(s.Call) }); ok {
						r.Hold(rule, cons, p.pos(s.Call), "returned "+why)
						return true
					}
				}
			}
		}
		// handed to a helper of the package (an error accumulator, a filter like ignoreNotFound): follow the value
		// through the helper's body spliced into this function's graph
		if f.Inl == nil && fi != nil {
			if g := p.FlatInl(fi); g != nil && len(g.Inl) > 0 {
				for _, gn := range g.Nodes {
					as, isAs := gn.Ast.(*ast.AssignStmt)
					if !isAs || gn.Synth == "" {
						continue
					}
					direct := false
					for _, rh := range as.Rhs {
						if ast.Unparen(rh) == ast.Expr(s.Call) {
							direct = true
						}
					}
					if !direct {
						continue
					}
					bs := g.bindOf(gn, s.Call)
					if bs.Kind != "assigned" {
						continue
					}
					res := g.errorConsumed(fi, bs.Node, bs.ErrVar, o)
					if res.OK {
						r.Hold(rule, cons, p.pos(s.Call), "handed to a helper of the package; consumed on every path on which it may be non-nil (helper inlined)")
						return true
					}
					r.Viol(rule, cons, p.pos(s.Call), "handed to a helper of the package: "+res.Detail, res.Pos)
					return false
				}
			}
		}
		r.Viol(rule, cons, p.pos(s.Call), "error result is consumed inside an expression the checker does not accept as propagation")
		return false
	default:
		r.Viol(rule, cons, p.pos(s.Call), "error result is "+s.Kind+": the caller never learns about the failure")
		return false
	}
	res := f.errorConsumed(fi, s.Node, s.ErrVar, o)
	if res.OK {
		r.Hold(rule, cons, p.pos(s.Call), "error consumed on every path on which it may be non-nil")
		return true
	}
	// the error may be handed to a helper of the package or to a local closure (skip := func(step string, err
	// error) { failed = errors.Join(failed, ...) }): judged again on the graph with those spliced in
	if f.Inl == nil && fi != nil && fi.Decl != nil && f.Body == fi.Decl.Body {
		if g := p.FlatInl(fi); g != nil && len(g.Inl) > 0 {
			if os.Getenv("FSDBCHECK_DEBUG") != "" {
				fmt.Println("DEBUG fallback", cons, g.NodeContaining(s.Call))
			}
			if at := g.NodeContaining(s.Call); at >= 0 {
				if bs := g.bindOf(g.Nodes[at], s.Call); bs.Kind == "assigned" && bs.ErrVar != nil {
					if res2 := g.errorConsumed(fi, bs.Node, bs.ErrVar, o); res2.OK {
						r.Hold(rule, cons, p.pos(s.Call), "error consumed on every path on which it may be non-nil (helpers and local closures spliced in)")
						return true
					}
				}
			}
		}
	}
	r.Viol(rule, cons, p.pos(s.Call), res.Detail, res.Pos)
	return false
}

// errShaper: c calls a local closure (defined once by a literal in fi) or a function of fi's package whose body is
// a single return statement; it returns the parameters and the returned expression of error type.
func (p *Prog) errShaper(fi *FuncInfo, c *ast.CallExpr) ([]types.Object, ast.Expr) {
	info := fi.Pkg.TypesInfo
	var ftype *ast.FuncType
	var body *ast.BlockStmt
	if id, ok := ast.Unparen(c.Fun).(*ast.Ident); ok {
		if v, isVar := info.Uses[id].(*types.Var); isVar && fi.body() != nil {
			if def := singleDef(info, fi.body(), v); def != nil {
				if lit, isLit := ast.Unparen(def).(*ast.FuncLit); isLit {
					ftype, body = lit.Type, lit.Body
				}
			}
		}
	}
	if body == nil {
		if callee := p.staticCallee(fi.Pkg, c); callee != nil && callee.Pkg == fi.Pkg && callee.Decl.Recv == nil && !callee.Obj.Exported() {
			ftype, body = callee.Decl.Type, callee.Decl.Body
		}
	}
	if body == nil || len(body.List) != 1 {
		return nil, nil
	}
	rs, ok := body.List[0].(*ast.ReturnStmt)
	if !ok || len(rs.Results) == 0 {
		return nil, nil
	}
	var params []types.Object
	for _, fld := range ftype.Params.List {
		for _, nm := range fld.Names {
			params = append(params, info.Defs[nm])
		}
		if len(fld.Names) == 0 {
			params = append(params, nil)
		}
	}
	last := rs.Results[len(rs.Results)-1]
	if tv, ok := info.Types[last]; !ok || !isErrorType(tv.Type) {
		return nil, nil
	}
	return params, last
}

// deferDeco: a deferred call that is handed the address of the function's named error result and rewrites it
// (defer annotate(&err, "db set")): shape is the expression the decorator stores, with *param standing for the error
// the function returns.
type deferDeco struct {
	param  types.Object
	shape  ast.Expr
	callee *FuncInfo
	at     *ast.DeferStmt
}

func (p *Prog) deferDecorators(fi *FuncInfo) []deferDeco {
	body := fi.body()
	if body == nil {
		return nil
	}
	info := fi.Pkg.TypesInfo
	ftype, _ := fi.funcType()
	named := map[types.Object]bool{}
	if ftype.Results != nil {
		for _, fld := range ftype.Results.List {
			for _, nm := range fld.Names {
				if o := info.Defs[nm]; o != nil && isErrorType(o.Type()) {
					named[o] = true
				}
			}
		}
	}
	if len(named) == 0 {
		return nil
	}
	var res []deferDeco
	walkNoLit(body, func(x ast.Node) bool {
		d, ok := x.(*ast.DeferStmt)
		if !ok {
			return true
		}
		h := p.staticCallee(fi.Pkg, d.Call)
		if h == nil || h.Pkg != fi.Pkg || h.Decl == nil || h.Decl.Body == nil {
			return true
		}
		args := argExprs(d.Call, h)
		for i, po := range paramObjs(h) {
			if po == nil || i < 0 || args[i] == nil {
				continue
			}
			u, ok := ast.Unparen(args[i]).(*ast.UnaryExpr)
			if !ok || u.Op != token.AND || !named[objOf(info, u.X)] {
				continue
			}
			ast.Inspect(h.Decl.Body, func(y ast.Node) bool {
				as, ok := y.(*ast.AssignStmt)
				if !ok || len(as.Lhs) != len(as.Rhs) {
					return true
				}
				for j, l := range as.Lhs {
					if st, ok := ast.Unparen(l).(*ast.StarExpr); ok && objOf(info, st.X) == po {
						res = append(res, deferDeco{param: po, shape: as.Rhs[j], callee: h, at: d})
					}
				}
				return true
			})
		}
		return true
	})
	return res
}
