package main

// C01 Key-value round trip.

import (
	"fmt"
	"go/ast"
	"go/types"
	"strings"
)

func init() { register("C01", propC01) }

const (
	kStoreGet     = "(*internal/usecase/store.UseCase).Get"
	kStoreGetKeys = "(*internal/usecase/store.UseCase).GetKeys"
	kStoreDelete  = "(*internal/usecase/store.UseCase).Delete"
	kCoreGet      = "(*internal/usecase/core.UseCase).Get"
	kCoreGetFiles = "(*internal/usecase/core.UseCase).GetFiles"
	kCFGet        = "(*internal/repository/content_file.Repo).Get"
	kContentGet   = "(*internal/repository/content.Repo).Get"
	kTxRepoGet    = "(*internal/repository/transaction.Repo).Get"
	kGenerate     = "(*internal/utils/generator.Gen).Generate"
)

func inlineEntries(p *Prog) []string {
	var res []string
	for _, k := range p.methodsOf("pkg/inline/db", "db") {
		if p.Funcs[k].Obj.Exported() {
			res = append(res, k)
		}
	}
	for _, k := range p.methodsOf("pkg/inline/db", "tx") {
		if p.Funcs[k].Obj.Exported() {
			res = append(res, k)
		}
	}
	// the root package's handle: exported methods of its unexported types (tx, or the parts it is split into)
	root := p.Pkg(".")
	for _, k := range sortedFuncKeys(p) {
		if c := p.Funcs[k]; c.Pkg == root && c.Decl != nil && c.Decl.Recv != nil && c.Decl.Body != nil && c.Obj.Exported() && !ast.IsExported(recvDeclTypeName(c.Decl)) {
			res = append(res, k)
		}
	}
	return res
}

func propC01(p *Prog, r *Report) {
	r.Rule("C01.a", "empty-key guard: with key == \"\" store.Set returns ErrEmptyKey on a path that performs no call at all (nothing changes); with a non-empty key that return is not taken (guard evaluated abstractly for both values)")
	r.Rule("C01.b", "write order: content file, then content record, then version record, each only on the err == nil edge of its predecessor and all before every success return; in core.Store the durable Badger write precedes and gates the in-memory publication (see C10.a for the directory loop)")
	r.Rule("C01.c", "sorted listing: every success return of store.GetKeys returns a slice on which a sort call was made after the last append reachable on that path")
	r.Rule("C01.d", "class preservation: every call site on the inline path (API methods, fs_db.tx, usecases, repositories, Badger wrapper) whose callee may produce ErrNotFound or ErrEmptyKey consumes the error on every path and keeps its class (returned unchanged, %w at the matching verb, errors.Join)")
	r.Rule("C01.e", "tombstone discipline: store.Delete writes only a version record with a freshly generated content id (no content, no content record); store.Get consults the content record (error-gated) before opening the content; store.GetKeys appends a key only when its content record exists, skips exactly the errors.Is(err, ErrNotFound) case and returns any other error")
	r.NotDecided = []string{"equality of the bytes read and written (chunking, buffers)", "absence of duplicates in GetKeys beyond the map-based merge", "GetKeys == {k | Get(k) ok} beyond the shared filter table (C02.a) and the shared content-record test"}
	r.Assume = []string{"sort.Strings / slices.Sort sort; Badger returns ErrKeyNotFound for absent keys"}

	c01EmptyKey(p, r)
	storeSetChain(p, r, "C01.b")
	c01Sorted(p, r)
	n := wrapClassRule(p, r, "C01.d", wrapOpts{
		Sentinels: []string{"fs_db.ErrNotFound", "fs_db.ErrEmptyKey"},
		Entries:   inlineEntries(p),
		SkipPkgs:  []string{pkgExtDB, pkgAdapterErr},
		Tolerated: map[string][]string{
			kStoreGetKeys:    {"is:fs_db.ErrNotFound"},
			kCleanDeleteFile: {"is:fs_db.ErrNotFound"},
		},
		Sinks: []string{"(*internal/utils/async.readWriter).SetError"},
	})
	r.Floor("C01.d", "class-relevant-call-sites", n, 20)
	c01Tombstones(p, r)
	r.Rule("C01.f", "Create pipe: end of stream is reported to the storing goroutine only when the pipe is drained (= C12.f); the chunk saved for a retry has exactly the length of the chunk written (= C10.c)")
	c12EOFOnlyWhenDrained(p, r, "C01.f")
	c10ChunkSaved(p, r, "C01.f")
}

func c01EmptyKey(p *Prog, r *Report) {
	fi := p.Func(kStoreSet)
	if fi == nil {
		r.Undecided("C01.a", kStoreSet, "", "store.Set not found")
		return
	}
	info := fi.Pkg.TypesInfo
	f := p.FlatOf(fi)
	var keyObj types.Object
	for _, fld := range fi.Decl.Type.Params.List {
		for _, nm := range fld.Names {
			if o := info.Defs[nm]; o != nil {
				if bt, ok := o.Type().(*types.Basic); ok && bt.Kind() == types.String {
					keyObj = o
				}
			}
		}
	}
	if keyObj == nil {
		r.Undecided("C01.a", kStoreSet, p.pos(fi.Decl), "no string parameter (key)")
		return
	}
	// key == "": must reach a return of ErrEmptyKey without any call
	env := &Env{P: p, Pkg: fi.Pkg, Vars: map[types.Object]*Val{keyObj: strVal("")}, Body: fi.Decl.Body}
	visited, exit, err := f.WalkPath(env)
	cons := kStoreSet + "#empty-key"
	if err != nil {
		r.Viol("C01.a", cons, p.pos(fi.Decl), "with an empty key the function reaches a branch that does not depend on the key before rejecting it: "+err.Error())
	} else {
		rs := f.returnStmt(exit)
		got := ""
		if rs != nil && len(rs.Results) > 0 {
			got = valueKey(info, rs.Results[len(rs.Results)-1])
		}
		okRet := got == "fs_db.ErrEmptyKey" || got == "wrap:fs_db.ErrEmptyKey"
		var calls []string
		for _, id := range visited {
			for _, c := range callsIn(f.Nodes[id].Ast, true) {
				if tv, ok := info.Types[c.Fun]; ok && tv.IsType() {
					continue
				}
				if id2, ok := c.Fun.(*ast.Ident); ok {
					if _, isB := info.Uses[id2].(*types.Builtin); isB {
						continue
					}
				}
				if isFunc(info, c, "fmt", "Errorf") {
					continue
				}
				calls = append(calls, types.ExprString(c.Fun))
			}
		}
		r.Check(okRet && len(calls) == 0, "C01.a", cons, p.pos(fi.Decl), "Set(\"\") returns ErrEmptyKey before any call",
			fmt.Sprintf("Set with an empty key returns %q after calling %v: it must fail with ErrEmptyKey and change nothing", got, calls))
	}
	// key == "x": the rejection is not taken
	env2 := &Env{P: p, Pkg: fi.Pkg, Vars: map[types.Object]*Val{keyObj: strVal("x")}, Body: fi.Decl.Body}
	_, exit2, err2 := f.WalkPath(env2)
	rejected := false
	if err2 == nil && exit2 >= 0 {
		if rs := f.returnStmt(exit2); rs != nil && len(rs.Results) > 0 && strings.Contains(valueKey(info, rs.Results[len(rs.Results)-1]), "fs_db.ErrEmptyKey") {
			rejected = true
		}
	}
	r.Check(!rejected, "C01.a", kStoreSet+"#non-empty-key", p.pos(fi.Decl), "a non-empty key passes the guard", "a non-empty key is rejected with ErrEmptyKey")
}

func isSortCall(info *types.Info, c *ast.CallExpr) bool {
	for _, fn := range [][2]string{{"sort", "Strings"}, {"sort", "Sort"}, {"sort", "Stable"}, {"sort", "Slice"}, {"sort", "SliceStable"},
		{"slices", "Sort"}, {"slices", "SortFunc"}, {"slices", "SortStableFunc"}} {
		if isFunc(info, c, fn[0], fn[1]) {
			return true
		}
	}
	return false
}

func c01Sorted(p *Prog, r *Report) {
	fi := p.Func(kStoreGetKeys)
	if fi == nil {
		r.Undecided("C01.c", kStoreGetKeys, "", "store.GetKeys not found")
		return
	}
	info := fi.Pkg.TypesInfo
	f := p.FlatOf(fi)
	succ := f.successReturns(fi)
	for _, id := range succ {
		rs := f.returnStmt(id)
		cons := kStoreGetKeys + "#sorted"
		if rs == nil || len(rs.Results) != 2 {
			r.Undecided("C01.c", cons, p.pos(fi.Decl), "success return shape")
			continue
		}
		var K types.Object
		sortedInline := false
		if c, ok := ast.Unparen(rs.Results[0]).(*ast.CallExpr); ok && (isFunc(info, c, "slices", "Sorted") || isFunc(info, c, "slices", "Compact")) {
			sortedInline = isFunc(info, c, "slices", "Sorted")
		}
		K = objOf(info, rs.Results[0])
		if sortedInline {
			r.Hold("C01.c", cons, p.pos(rs), "returns slices.Sorted(...)")
			continue
		}
		if K == nil {
			r.Undecided("C01.c", cons, p.pos(rs), "returned keys are not a variable")
			continue
		}
		sorts := f.Match(func(n *GNode) bool {
			for _, c := range callsIn(n.Ast, false) {
				if isSortCall(info, c) && len(c.Args) >= 1 && usesObj(info, c.Args[0], K) {
					return true
				}
			}
			return false
		})
		appends := f.Match(func(n *GNode) bool {
			for _, o := range assignedObjs(info, n.Ast) {
				if o == K {
					if as, ok := n.Ast.(*ast.AssignStmt); ok && len(as.Rhs) == 1 {
						if c, ok := ast.Unparen(as.Rhs[0]).(*ast.CallExpr); ok {
							if id, ok := c.Fun.(*ast.Ident); ok && id.Name == "append" {
								return true
							}
						}
					}
				}
			}
			return false
		})
		ok := len(sorts) > 0 && f.MustPrecede(setOf(sorts), id)
		for _, s := range sorts {
			if f.ReachableAfter(s, setOf(appends), nil) {
				ok = false
			}
		}
		r.Check(ok, "C01.c", cons, p.pos(rs), "sorted after the last append on every path", "the key list can be returned unsorted (no sort call after the last append on some path)")
	}
	if len(succ) == 0 {
		r.Undecided("C01.c", kStoreGetKeys, p.pos(fi.Decl), "no success return")
	}
}

func c01Tombstones(p *Prog, r *Report) {
	// Delete
	if fi := p.Func(kStoreDelete); fi != nil {
		info := fi.Pkg.TypesInfo
		f := p.FlatOf(fi)
		bad := f.CallNodes(kContentStore, kCFStore)
		r.Check(len(bad) == 0, "C01.e", kStoreDelete+"#no-content", p.pos(fi.Decl), "Delete writes no content and no content record", "Delete writes a content or a content record: the key would read as existing")
		sites := f.CallSites(kCoreStore)
		if len(sites) == 0 {
			// the version is stored by a helper shared with Set (storeVersion(ctx, key, contentId)): spliced in
			f = p.FlatInl(fi)
			sites = f.CallSites(kCoreStore)
		}
		fresh := false
		for _, s := range sites {
			for _, a := range s.Call.Args {
				if cl, ok := ast.Unparen(a).(*ast.CompositeLit); ok {
					for _, el := range cl.Elts {
						if kv, ok := el.(*ast.KeyValueExpr); ok {
							if id, ok := kv.Key.(*ast.Ident); ok && id.Name == "ContentId" {
								v := ast.Unparen(kv.Value)
								if o := objOf(info, v); o != nil {
									if d := singleDef(info, fi.Decl.Body, o); d != nil {
										v = ast.Unparen(d)
									} else {
										// the parameter of the spliced-in helper: bound to the argument at the call
										for _, gn := range f.Nodes {
											if as, ok := gn.Ast.(*ast.AssignStmt); ok && gn.Synth != "" && len(as.Lhs) == len(as.Rhs) {
												for i, l := range as.Lhs {
													if objOf(info, l) == o {
														v = ast.Unparen(as.Rhs[i])
													}
												}
											}
										}
									}
								}
								if c, ok := v.(*ast.CallExpr); ok && p.callIs(fi.Pkg, c, kGenerate) {
									fresh = true
								}
							}
						}
					}
				} else if hc, isCall := ast.Unparen(a).(*ast.CallExpr); isCall {
					// the version built by a helper of the use case: newVersion(ctx, key)
					if h := p.staticCallee(fi.Pkg, hc); h != nil && h.Pkg == fi.Pkg {
						ast.Inspect(h.Decl.Body, func(x ast.Node) bool {
							if kv, ok := x.(*ast.KeyValueExpr); ok {
								if id, ok := kv.Key.(*ast.Ident); ok && id.Name == "ContentId" {
									if c, ok := ast.Unparen(kv.Value).(*ast.CallExpr); ok && p.callIs(fi.Pkg, c, kGenerate) {
										fresh = true
									}
								}
							}
							return true
						})
					}
				} else if o := objOf(info, a); o != nil {
					// variable: look for ContentId assigned from Generate
					ast.Inspect(fi.Decl.Body, func(x ast.Node) bool {
						if kv, ok := x.(*ast.KeyValueExpr); ok {
							if id, ok := kv.Key.(*ast.Ident); ok && id.Name == "ContentId" {
								if c, ok := ast.Unparen(kv.Value).(*ast.CallExpr); ok && p.callIs(fi.Pkg, c, kGenerate) {
									fresh = true
								}
							}
						}
						return true
					})
				}
			}
		}
		r.Check(len(sites) > 0 && fresh, "C01.e", kStoreDelete+"#tombstone", p.pos(fi.Decl), "tombstone version with a fresh content id", "Delete does not store a version with a freshly generated content id")
		if len(sites) > 0 {
			f.CheckChain(r, "C01.e", fi, []step{{Name: "tombstone version stored", Keys: []string{kCoreStore}}})
		}
	} else {
		r.Undecided("C01.e", kStoreDelete, "", "store.Delete not found")
	}
	// Get: version -> content record -> content
	if fi := p.Func(kStoreGet); fi != nil {
		f := p.FlatOf(fi)
		f.CheckChain(r, "C01.e", fi, []step{
			{Name: "version looked up", Keys: []string{kCoreGet}},
			{Name: "content record looked up", Keys: []string{kCFGet}},
			{Name: "content opened", Keys: []string{kContentGet}},
		})
	} else {
		r.Undecided("C01.e", kStoreGet, "", "store.Get not found")
	}
	// GetKeys: key appended only when the content record exists
	if fi := p.Func(kStoreGetKeys); fi != nil {
		info := fi.Pkg.TypesInfo
		f := p.FlatOf(fi)
		sites := f.CallSites(kCFGet)
		if len(sites) == 0 {
			// the lookup may sit in a helper that answers with a flag (exists(id) (bool, error)): splice it in and
			// follow the flag
			if fx := p.FlatInl(fi).SplitBools(); len(fx.CallSites(kCFGet)) > 0 {
				f = fx
				sites = f.CallSites(kCFGet)
			}
		}
		if len(sites) == 0 {
			// the test may live in an iterator of the package that GetKeys ranges over: it yields a key only after
			// a successful lookup, GetKeys lists what it yields and handles the error it yields
			for _, rs := range rangeLoops(fi.Decl.Body) {
				ic, ok := ast.Unparen(rs.X).(*ast.CallExpr)
				if !ok {
					continue
				}
				lit, yield := p.errIterator(fi.Pkg, ic)
				if lit == nil {
					continue
				}
				lf := p.FlatOf(lit)
				lsites := lf.CallSites(kCFGet)
				if len(lsites) == 0 {
					continue
				}
				yields := lf.Match(func(n *GNode) bool {
					for _, c := range callsIn(n.Ast, false) {
						if objOf(info, c.Fun) == yield && len(c.Args) == 2 {
							if sel, ok := ast.Unparen(c.Args[0]).(*ast.SelectorExpr); ok && sel.Sel.Name == "Key" {
								return true
							}
						}
					}
					return false
				})
				for _, s := range lsites {
					ok, _, st := lf.GatedBy(s, yields, "is:fs_db.ErrNotFound")
					// (a missing record is tolerated by the gate only when that path does not reach a yield of the key)
					ok2, _, _ := lf.GatedBy(s, yields)
					pre := true
					for _, a := range yields {
						if !lf.MustPrecede(setOf([]int{s.Node}), a) {
							pre = false
						}
					}
					_ = ok
					r.Check(ok2 && pre && len(yields) > 0, "C01.e", kStoreGetKeys+"#content-record-test", p.pos(s.Call), "a key is yielded only after a successful content-record lookup",
						"a key can be listed although its content record lookup failed or was not made ("+strings.Join(st, ",")+")")
					lf.SiteConsumed(r, "C01.e", kStoreGetKeys+"#lookup-error", lit, s, flowOpts{Class: true, Tolerated: []string{"is:fs_db.ErrNotFound"}, SinkParams: map[types.Object]bool{yield: true}})
				}
				if eo := objOf(info, rs.Value); rs.Value != nil && eo != nil && isErrorType(eo.Type()) {
					f.RangeErrConsumed(r, "C01.e", kStoreGetKeys+"#iterator-error", fi, rs, eo, flowOpts{Class: true})
				}
				// what the iterator yields is listed
				listed := false
				if ko := objOf(info, rs.Key); rs.Key != nil && ko != nil {
					ast.Inspect(rs.Body, func(x ast.Node) bool {
						if c, ok := x.(*ast.CallExpr); ok {
							if id, ok := c.Fun.(*ast.Ident); ok && id.Name == "append" {
								for _, a := range c.Args[1:] {
									if objOf(info, a) == ko {
										listed = true
									}
								}
							}
						}
						return true
					})
				}
				r.Check(listed, "C01.e", kStoreGetKeys+"#yielded-keys-listed", p.pos(rs), "the keys the iterator yields are appended to the result", "GetKeys does not list the keys its iterator yields")
				return
			}
			r.Viol("C01.e", kStoreGetKeys+"#content-record-test", p.pos(fi.Decl), "GetKeys no longer tests the content record: deleted keys are listed")
			return
		}
		appends := f.Match(func(n *GNode) bool {
			// the key is listed: appended, or stored at the next free position of a slice sized in advance
			if as, ok := n.Ast.(*ast.AssignStmt); ok && len(as.Rhs) == 1 && len(as.Lhs) == 1 {
				if _, isIx := ast.Unparen(as.Lhs[0]).(*ast.IndexExpr); isIx {
					if sel, ok := ast.Unparen(as.Rhs[0]).(*ast.SelectorExpr); ok && sel.Sel.Name == "Key" {
						return true
					}
				}
			}
			if as, ok := n.Ast.(*ast.AssignStmt); ok && len(as.Rhs) == 1 {
				if c, ok := ast.Unparen(as.Rhs[0]).(*ast.CallExpr); ok {
					if id, ok := c.Fun.(*ast.Ident); ok && id.Name == "append" {
						for _, a := range c.Args[1:] {
							if sel, ok := ast.Unparen(a).(*ast.SelectorExpr); ok && sel.Sel.Name == "Key" {
								return true
							}
						}
					}
				}
			}
			return false
		})
		for _, s := range sites {
			ok, _, st := f.GatedBy(s, appends)
			pre := true
			// (the copies of one call that the flag-splitting makes count as one site)
			twins := []int{}
			for _, s2 := range sites {
				if s2.Call == s.Call {
					twins = append(twins, s2.Node)
				}
			}
			for _, a := range appends {
				if !f.MustPrecede(setOf(twins), a) {
					pre = false
				}
			}
			r.Check(ok && pre && len(appends) > 0, "C01.e", kStoreGetKeys+"#content-record-test", p.pos(s.Call), "a key is appended only after a successful content-record lookup",
				"a key can be listed although its content record lookup failed or was not made ("+strings.Join(st, ",")+")")
			f.SiteConsumed(r, "C01.e", kStoreGetKeys+"#lookup-error", fi, s, flowOpts{Class: true, Tolerated: []string{"is:fs_db.ErrNotFound"}})
		}
		_ = info
	} else {
		r.Undecided("C01.e", kStoreGetKeys, "", "store.GetKeys not found")
	}
}
